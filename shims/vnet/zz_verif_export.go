package vnet

import (
	"net"
	"reflect"

	"github.com/pion/logging"
	"github.com/pion/transport/v3"
)

// Export shims for the in-package halves of the vnet checks. They add no
// behaviour: thin wrappers around unexported constructors and methods, and a
// NIC whose inbound path calls back into the harness.

// VerifSink is a NIC that hands every inbound chunk to OnChunk.
type VerifSink struct {
	OnChunk func(Chunk)
	ifc     *transport.Interface
	static  []net.IP
}

// VerifNewSink creates a sink NIC with an eth0 interface.
func VerifNewSink(onChunk func(Chunk), staticIPs ...net.IP) *VerifSink {
	eth0 := transport.NewInterface(net.Interface{
		Index: 2, MTU: 1500, Name: "eth0", HardwareAddr: newMACAddress(),
		Flags: net.FlagUp | net.FlagMulticast,
	})

	return &VerifSink{OnChunk: onChunk, ifc: eth0, static: staticIPs}
}

func (s *VerifSink) getInterface(string) (*transport.Interface, error) { return s.ifc, nil }
func (s *VerifSink) onInboundChunk(c Chunk)                            { s.OnChunk(c) }
func (s *VerifSink) getStaticIPs() []net.IP                            { return s.static }
func (s *VerifSink) setRouter(*Router) error                           { return nil }

// VerifAddrs returns the addresses assigned to the sink's eth0.
func (s *VerifSink) VerifAddrs() []net.IP {
	addrs, _ := s.ifc.Addrs()
	var ips []net.IP
	for _, a := range addrs {
		if n, ok := a.(*net.IPNet); ok {
			ips = append(ips, n.IP)
		}
	}

	return ips
}

// VerifInbound delivers a chunk to a NIC (filter, router, net).
func VerifInbound(n NIC, c Chunk) { n.onInboundChunk(c) }

// VerifNewChunkUDP builds a UDP chunk.
func VerifNewChunkUDP(src, dst *net.UDPAddr, payload []byte) Chunk {
	c := newChunkUDP(src, dst)
	c.userData = payload

	return c
}

// VerifNewChunkTCP builds a TCP chunk with the given control bits (FIN 1, SYN 2, RST 4, PSH 8, ACK 16).
func VerifNewChunkTCP(src, dst *net.TCPAddr, flags uint8, payload []byte) Chunk {
	c := newChunkTCP(src, dst, tcpFlag(flags))
	c.userData = payload

	return c
}

// VerifStamp gives the chunk a timestamp (now), as Router.push does when a chunk enters a router.
func VerifStamp(c Chunk) { c.setTimestamp() }

// VerifNAT wraps the unexported translator.
type VerifNAT struct{ n *networkAddressTranslator }

// VerifNewNAT builds a translator as Router.setRouter does.
func VerifNewNAT(natType NATType, mappedIPs, localIPs []net.IP) (*VerifNAT, error) {
	n, err := newNAT(&natConfig{
		name: "verif", natType: natType, mappedIPs: mappedIPs, localIPs: localIPs,
		loggerFactory: logging.NewDefaultLoggerFactory(),
	})
	if err != nil {
		return nil, err
	}

	return &VerifNAT{n}, nil
}

// Outbound is translateOutbound.
func (v *VerifNAT) Outbound(c Chunk) (Chunk, error) { return v.n.translateOutbound(c) }

// Inbound is translateInbound.
func (v *VerifNAT) Inbound(c Chunk) (Chunk, error) { return v.n.translateInbound(c) }

// VerifRouterIPs lists the addresses a router has handed out (keys of nics).
func (r *Router) VerifRouterIPs() []string {
	r.mutex.RLock()
	defer r.mutex.RUnlock()
	var s []string
	for k := range r.nics {
		s = append(s, k)
	}

	return s
}

// VerifNetIPs returns the addresses of a Net's eth0.
func (v *Net) VerifNetIPs() []net.IP {
	v.mutex.RLock()
	defer v.mutex.RUnlock()
	ifc, err := v._getInterface("eth0")
	if err != nil {
		return nil
	}
	addrs, _ := ifc.Addrs()
	var ips []net.IP
	for _, a := range addrs {
		if n, ok := a.(*net.IPNet); ok {
			ips = append(ips, n.IP)
		}
	}

	return ips
}

// VerifQueue returns the number of chunks and bytes waiting in the token
// bucket filter's queue. Only meaningful while the filter goroutine is parked.
func (t *TokenBucketFilter) VerifQueue() (int, int) {
	n, b := verifQueueState(t.queue)

	return n, b
}

// VerifQueued returns the number of datagrams waiting in the socket's
// receive queue (lets the harness read exactly what has arrived without
// waiting for a timeout).
func (c *UDPConn) VerifQueued() int { return len(c.readCh) }

// VerifIfc returns the addresses on the router's parent-side interface.
func (r *Router) VerifIfc() ([]string, error) {
	ifc, err := r.getInterface("eth0")
	if err != nil {
		return nil, err
	}
	addrs, _ := ifc.Addrs()
	var s []string
	for _, a := range addrs {
		if n, ok := a.(*net.IPNet); ok {
			s = append(s, n.IP.String())
		}
	}

	return s, nil
}

// UDPConnLike is what the bind-table check needs from a vnet socket.
type UDPConnLike interface {
	net.PacketConn
	VerifQueued() int
}

// VerifQueueLen returns the number of chunks waiting in the router's queue.
func (r *Router) VerifQueueLen() int {
	n, _ := verifQueueState(r.queue)

	return n
}

// verifQueueState reads the number of waiting chunks and their bytes out of a
// chunk queue by reflection (fields "chunks" and "currentBytes"), without taking
// its lock: the harness calls it only while the owning goroutine is parked. If
// the queue no longer has these fields it answers -1, -1 ("unknown") instead of
// breaking the build of every check that shares this shim.
func verifQueueState(q interface{}) (int, int) {
	v := reflect.ValueOf(q)
	for v.Kind() == reflect.Ptr || v.Kind() == reflect.Interface {
		if v.IsNil() {
			return -1, -1
		}
		v = v.Elem()
	}
	if v.Kind() != reflect.Struct {
		return -1, -1
	}
	chunks := v.FieldByName("chunks")
	if !chunks.IsValid() || chunks.Kind() != reflect.Slice {
		return -1, -1
	}
	bytes := -1
	if cb := v.FieldByName("currentBytes"); cb.IsValid() && cb.CanInt() {
		bytes = int(cb.Int())
	}

	return chunks.Len(), bytes
}

// VerifDrainDelayNotify takes one pending arrival notification of a delay
// filter, if a sender is parked on it (harness cleanup after a dead loop).
func VerifDrainDelayNotify(f *DelayFilter) {
	select {
	case <-f.push:
	default:
	}
}
