package packetio

// VerifRing exposes the ring geometry for case classification only (which
// generated cases crossed a growth step with wrapped data, or split a packet
// across the ring end). The oracle never looks at it.
func (b *Buffer) VerifRing() (head, tail, capacity int) {
	b.mutex.Lock()
	defer b.mutex.Unlock()

	return b.head, b.tail, len(b.data)
}
