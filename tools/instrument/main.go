// instrument prepares the go build -overlay descriptions used by the checks.
//
//	overlay.plain.json  adds the export shims of /verif/shims/<pkg>/ to the
//	                    package directories of the working tree; every file
//	                    of the working tree is used as it is.
//	overlay.full.json   additionally replaces selected working-tree files by
//	                    copies with yield calls before every synchronisation
//	                    operation and with time.Now/Since/Until/AfterFunc
//	                    redirected to hook variables (see instrument.go).
//
// Nothing is ever written below the repository.
package main

import (
	"encoding/json"
	"flag"
	"fmt"
	"os"
	"path/filepath"
	"sort"
	"strings"
)

type overlay struct {
	Replace map[string]string
}

func main() {
	repo := flag.String("repo", "/repo", "repository working tree")
	verif := flag.String("verif", "/verif", "verification directory")
	out := flag.String("out", "", "output directory")
	flag.Parse()
	if *out == "" {
		fmt.Fprintln(os.Stderr, "need -out")
		os.Exit(2)
	}
	plain := overlay{Replace: map[string]string{}}
	full := overlay{Replace: map[string]string{}}

	// export shims: files named zz_verif_*.go; those ending in _full.go are
	// only part of the full overlay (they reference the hook functions).
	shimRoot := filepath.Join(*verif, "shims")
	_ = filepath.Walk(shimRoot, func(p string, info os.FileInfo, err error) error {
		if err != nil || info.IsDir() || !strings.HasSuffix(p, ".go") {
			return nil
		}
		rel, _ := filepath.Rel(shimRoot, p)
		dst := filepath.Join(*repo, rel)
		if _, err := os.Stat(filepath.Dir(dst)); err != nil {
			return nil // package directory vanished; the build will say so
		}
		if strings.HasSuffix(p, "_full.go") {
			full.Replace[dst] = p
			return nil
		}
		plain.Replace[dst] = p
		full.Replace[dst] = p
		return nil
	})

	if err := stripTags(*repo, *verif, *out, &plain, &full); err != nil {
		fmt.Fprintln(os.Stderr, "instrument: tag stripping:", err)
		os.Exit(1)
	}
	if err := instrumentAll(*repo, *out, &full); err != nil {
		fmt.Fprintln(os.Stderr, "instrument:", err)
		os.Exit(1)
	}

	write := func(name string, o overlay) {
		b, _ := json.MarshalIndent(o, "", " ")
		if err := os.WriteFile(filepath.Join(*out, name), b, 0o644); err != nil {
			fmt.Fprintln(os.Stderr, err)
			os.Exit(1)
		}
	}
	write("overlay.plain.json", plain)
	write("overlay.full.json", full)
	keys := make([]string, 0, len(full.Replace))
	for k := range full.Replace {
		keys = append(keys, k)
	}
	sort.Strings(keys)
	fmt.Printf("overlay: %d plain entries, %d full entries\n", len(plain.Replace), len(full.Replace))
}
