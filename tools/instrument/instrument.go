package main

import (
	"fmt"
	"go/ast"
	"go/parser"
	"go/token"
	"os"
	"path/filepath"
	"regexp"
	"sort"
	"strings"
)

// Files of the working tree that get yield calls before every
// synchronisation operation (controlled scheduler) ...
var yieldFiles = []string{
	"packetio/buffer.go",
	"deadline/deadline.go",
	"udp/conn.go",
	"udp/batchconn.go",
	"netctx/conn.go",
	"netctx/packetconn.go",
	"connctx/connctx.go",
	"vnet/delay_filter.go",
	"vnet/chunk_queue.go",
	"vnet/router.go",
	"vnet/net.go",
	"vnet/conn.go",
	"vnet/conn_map.go",
	"vnet/nat.go",
}

// ... and files whose clock reads are redirected to hook functions.
var clockFiles = []string{
	"deadline/deadline.go",
	"deadline/timer_generic.go",
	"vnet/nat.go",
	"vnet/tbf.go",
}

// time facilities the pass cannot virtualise; reported per file.
var unsupportedTime = map[string]bool{"Sleep": true, "NewTimer": true, "After": true, "Tick": true, "NewTicker": true}

type edit struct {
	start, end int // byte offsets; start==end: insertion
	text       string
	seq        int
}

type report struct {
	File        string   `json:"file"`
	Yields      int      `json:"yields"`
	GoStmts     int      `json:"go_statements"`
	ClockReads  int      `json:"clock_reads"`
	Unsupported []string `json:"unsupported_time_calls"`
}

func instrumentAll(repo, out string, full *overlay) error {
	want := map[string][2]bool{}
	for _, f := range yieldFiles {
		w := want[f]
		w[0] = true
		want[f] = w
	}
	for _, f := range clockFiles {
		w := want[f]
		w[1] = true
		want[f] = w
	}
	pkgs := map[string]string{} // package dir -> package name
	var reports []report
	files := make([]string, 0, len(want))
	for f := range want {
		files = append(files, f)
	}
	sort.Strings(files)
	for _, rel := range files {
		src := filepath.Join(repo, rel)
		b, err := os.ReadFile(src)
		if err != nil {
			// file vanished (refactoring): nothing to instrument; the checks
			// that need it will notice missing yield labels.
			continue
		}
		w := want[rel]
		text, pkgName, rep, err := instrumentFile(rel, b, w[0], w[1])
		if err != nil {
			return fmt.Errorf("%s: %w", rel, err)
		}
		reports = append(reports, rep)
		dst := filepath.Join(out, "full", rel)
		if err := os.MkdirAll(filepath.Dir(dst), 0o755); err != nil {
			return err
		}
		if err := writeIfChanged(dst, text); err != nil {
			return err
		}
		full.Replace[src] = dst
		pkgs[filepath.Dir(rel)] = pkgName
	}
	for dir, name := range pkgs {
		dst := filepath.Join(out, "full", dir, "zz_verif_hooks.go")
		if err := writeIfChanged(dst, hooksSource(name)); err != nil {
			return err
		}
		full.Replace[filepath.Join(repo, dir, "zz_verif_hooks.go")] = dst
	}
	var sb strings.Builder
	for _, r := range reports {
		fmt.Fprintf(&sb, "%s: yields=%d go=%d clock=%d unsupported=%v\n", r.File, r.Yields, r.GoStmts, r.ClockReads, r.Unsupported)
	}
	return writeIfChanged(filepath.Join(out, "instrument.report"), sb.String())
}

func writeIfChanged(dst, text string) error {
	old, err := os.ReadFile(dst)
	if err == nil && string(old) == text {
		return nil
	}
	if err := os.MkdirAll(filepath.Dir(dst), 0o755); err != nil {
		return err
	}
	tmp := fmt.Sprintf("%s.%d.tmp", dst, os.Getpid())
	if err := os.WriteFile(tmp, []byte(text), 0o644); err != nil {
		return err
	}
	return os.Rename(tmp, dst)
}

func instrumentFile(rel string, src []byte, yields, clock bool) (string, string, report, error) {
	rep := report{File: rel}
	fset := token.NewFileSet()
	f, err := parser.ParseFile(fset, rel, src, parser.ParseComments)
	if err != nil {
		return "", "", rep, err
	}
	base := filepath.Base(rel)
	off := func(p token.Pos) int { return fset.Position(p).Offset }
	line := func(p token.Pos) int { return fset.Position(p).Line }
	var edits []edit
	add := func(start, end int, text string) {
		edits = append(edits, edit{start, end, text, len(edits)})
	}

	importsTime := false
	for _, im := range f.Imports {
		if im.Path.Value == `"time"` && im.Name == nil {
			importsTime = true
		}
	}

	if clock && importsTime {
		ast.Inspect(f, func(n ast.Node) bool {
			sel, ok := n.(*ast.SelectorExpr)
			if !ok {
				return true
			}
			id, ok := sel.X.(*ast.Ident)
			if !ok || id.Name != "time" || id.Obj != nil {
				return true
			}
			switch sel.Sel.Name {
			case "Now":
				add(off(sel.Pos()), off(sel.End()), "verifNow")
				rep.ClockReads++
			case "Since":
				add(off(sel.Pos()), off(sel.End()), "verifSince")
				rep.ClockReads++
			case "Until":
				add(off(sel.Pos()), off(sel.End()), "verifUntil")
				rep.ClockReads++
			case "AfterFunc":
				add(off(sel.Pos()), off(sel.End()), "verifAfterFunc")
				rep.ClockReads++
			default:
				if unsupportedTime[sel.Sel.Name] {
					rep.Unsupported = append(rep.Unsupported, fmt.Sprintf("%s:%d:time.%s", base, line(sel.Pos()), sel.Sel.Name))
				}
			}
			return true
		})
	}

	if yields {
		var doList func(list []ast.Stmt)
		doList = func(list []ast.Stmt) {
			for _, st := range list {
				if lb, ok := st.(*ast.LabeledStmt); ok {
					st = lb.Stmt
				}
				if g, ok := st.(*ast.GoStmt); ok {
					rep.GoStmts++
					label := fmt.Sprintf("%s:%d:go", base, line(g.Pos()))
					if fl, ok := g.Call.Fun.(*ast.FuncLit); ok {
						add(off(g.Pos()), off(g.Pos()), "verifSpawn(); ")
						add(off(fl.Body.Lbrace)+1, off(fl.Body.Lbrace)+1, fmt.Sprintf(" verifAdopt(%q); defer verifRetire();", label))
					} else if len(g.Call.Args) == 0 {
						call := string(src[off(g.Call.Pos()):off(g.Call.End())])
						add(off(g.Pos()), off(g.End()), fmt.Sprintf("verifSpawn(); go func() { verifAdopt(%q); defer verifRetire(); %s }()", label, call))
					}
					continue
				}
				for _, k := range syncKinds(st) {
					rep.Yields++
					add(off(st.Pos()), off(st.Pos()), fmt.Sprintf("verifYield(%q); ", fmt.Sprintf("%s:%d:%s", base, line(st.Pos()), k)))
					break // one yield per statement, labelled by its first operation
				}
			}
		}
		ast.Inspect(f, func(n ast.Node) bool {
			switch x := n.(type) {
			case *ast.BlockStmt:
				doList(x.List)
			case *ast.CaseClause:
				doList(x.Body)
			case *ast.CommClause:
				doList(x.Body)
			}
			return true
		})
	}

	// apply edits back to front; insertions at the same offset keep order
	sort.SliceStable(edits, func(i, j int) bool {
		if edits[i].start != edits[j].start {
			return edits[i].start > edits[j].start
		}
		return edits[i].seq > edits[j].seq
	})
	out := string(src)
	for _, e := range edits {
		out = out[:e.start] + e.text + out[e.end:]
	}
	if importsTime {
		out += "\nvar _ = time.Now // keeps the import used after redirection\n"
	}
	// must still parse
	if _, err := parser.ParseFile(token.NewFileSet(), rel, out, 0); err != nil {
		return "", "", rep, fmt.Errorf("instrumented file does not parse: %w", err)
	}
	return out, f.Name.Name, rep, nil
}

var lockNames = map[string]string{
	"Lock": "lock", "RLock": "lock", "Unlock": "unlock", "RUnlock": "unlock",
	"Wait": "wait", "Add": "wg", "Done": "wg", "Do": "once",
	"Load": "atomic", "Store": "atomic", "Swap": "atomic", "CompareAndSwap": "atomic",
	"Close": "closecall",
}

// syncKinds lists the synchronisation operations in the "header" of a
// statement (the part evaluated before any nested block).
func syncKinds(st ast.Stmt) []string {
	var kinds []string
	var exprs []ast.Node
	switch s := st.(type) {
	case *ast.SelectStmt:
		for _, c := range s.Body.List {
			if cc, ok := c.(*ast.CommClause); ok && cc.Comm == nil {
				return []string{"selectnb"}
			}
		}
		return []string{"select"}
	case *ast.SendStmt:
		return []string{"send"}
	case *ast.ExprStmt:
		exprs = append(exprs, s.X)
	case *ast.AssignStmt:
		for _, e := range s.Rhs {
			exprs = append(exprs, e)
		}
		for _, e := range s.Lhs {
			exprs = append(exprs, e)
		}
	case *ast.ReturnStmt:
		for _, e := range s.Results {
			exprs = append(exprs, e)
		}
	case *ast.IfStmt:
		if s.Init != nil {
			exprs = append(exprs, s.Init)
		}
		exprs = append(exprs, s.Cond)
	case *ast.ForStmt:
		if s.Init != nil {
			exprs = append(exprs, s.Init)
		}
		if s.Cond != nil {
			exprs = append(exprs, s.Cond)
		}
	case *ast.SwitchStmt:
		if s.Init != nil {
			exprs = append(exprs, s.Init)
		}
		if s.Tag != nil {
			exprs = append(exprs, s.Tag)
		}
	case *ast.RangeStmt:
		exprs = append(exprs, s.X)
	case *ast.IncDecStmt:
		exprs = append(exprs, s.X)
	case *ast.DeclStmt:
		exprs = append(exprs, s.Decl)
	default:
		return nil // defer, go, branch, block, ... : no yield
	}
	for _, e := range exprs {
		ast.Inspect(e, func(n ast.Node) bool {
			switch x := n.(type) {
			case *ast.FuncLit:
				return false
			case *ast.UnaryExpr:
				if x.Op == token.ARROW {
					kinds = append(kinds, "recv")
				}
			case *ast.CallExpr:
				switch fn := x.Fun.(type) {
				case *ast.Ident:
					if fn.Name == "close" {
						kinds = append(kinds, "close")
					}
				case *ast.SelectorExpr:
					if id, ok := fn.X.(*ast.Ident); ok && id.Name == "atomic" {
						kinds = append(kinds, "atomic")
					} else if k, ok := lockNames[fn.Sel.Name]; ok {
						kinds = append(kinds, k)
					} else if inner, ok := fn.X.(*ast.SelectorExpr); ok && inner.Sel.Name == "nextConn" {
						// a call into the wrapped connection of the context wrappers (Read, Write,
						// SetReadDeadline, ...): the point where "the watcher has already come and
						// gone" or "the deadline is set after the call began" is decided
						kinds = append(kinds, "wrapped")
					}
				}
			}
			return true
		})
	}
	return kinds
}

func hooksSource(pkg string) string {
	return strings.ReplaceAll(hooksTemplate, "PKG", pkg)
}

const hooksTemplate = `// Code generated by /verif/tools/instrument. DO NOT EDIT.
// Hook functions called by the instrumented copies of this package's files.
// With no hook table installed they do nothing / use the real clock.

package PKG

import (
	"sync/atomic"
	"time"
)

// VerifTimer is what a (fake) AfterFunc timer offers.
type VerifTimer interface {
	Stop() bool
	Reset(time.Duration) bool
}

// VerifHooks is installed by the harness for the duration of one case.
type VerifHooks struct {
	Yield     func(label string)
	Spawn     func()
	Adopt     func(label string)
	Retire    func(panicValue interface{})
	Now       func() time.Time
	AfterFunc func(d time.Duration, f func()) VerifTimer
}

var verifHooks atomic.Pointer[VerifHooks]

// VerifSetHooks installs (or, with nil, removes) the hook table.
func VerifSetHooks(h *VerifHooks) { verifHooks.Store(h) }

func verifYield(label string) {
	if h := verifHooks.Load(); h != nil && h.Yield != nil {
		h.Yield(label)
	}
}

func verifSpawn() {
	if h := verifHooks.Load(); h != nil && h.Spawn != nil {
		h.Spawn()
	}
}

func verifAdopt(label string) {
	if h := verifHooks.Load(); h != nil && h.Adopt != nil {
		h.Adopt(label)
	}
}

// verifRetire is deferred in goroutines started by instrumented go
// statements. While a hook table is installed a panic of such a goroutine is
// handed to the harness (which reports it) instead of killing the process.
func verifRetire() {
	if h := verifHooks.Load(); h != nil && h.Retire != nil {
		h.Retire(recover())
	}
}

func verifNow() time.Time {
	if h := verifHooks.Load(); h != nil && h.Now != nil {
		return h.Now()
	}

	return time.Now()
}

func verifSince(t time.Time) time.Duration { return verifNow().Sub(t) }

func verifUntil(t time.Time) time.Duration { return t.Sub(verifNow()) }

func verifAfterFunc(d time.Duration, f func()) VerifTimer {
	if h := verifHooks.Load(); h != nil && h.AfterFunc != nil {
		return h.AfterFunc(d, f)
	}

	return time.AfterFunc(d, f)
}
`

var pkgLine = regexp.MustCompile(`(?m)^package\s+\w+`)

// stripTags copies utils/xor/xor_old.go from the working tree into the
// harness as package xorold with its build constraint removed, so that the
// word-wise implementation the default toolchain never selects is compiled
// and tested. The file is regenerated on every run.
func stripTags(repo, verif, out string, overlays ...*overlay) error {
	src := filepath.Join(repo, "utils", "xor", "xor_old.go")
	dst := filepath.Join(out, "gen", "xor_old_gen.go")
	if err := os.MkdirAll(filepath.Dir(dst), 0o755); err != nil {
		return err
	}
	for _, o := range overlays {
		o.Replace[filepath.Join(verif, "harness", "xorold", "xor_old_gen.go")] = dst
	}
	b, err := os.ReadFile(src)
	var text string
	if err != nil {
		text = "package xorold\n\n// Available is false: utils/xor/xor_old.go does not exist in the working tree.\nconst Available = false\n\nfunc XorBytes(dst, a, b []byte) int { panic(\"unavailable\") }\nfunc VerifFast(dst, a, b []byte, n int) { panic(\"unavailable\") }\nfunc VerifSafe(dst, a, b []byte, n int) { panic(\"unavailable\") }\n"
	} else {
		var lines []string
		for _, l := range strings.Split(string(b), "\n") {
			if strings.HasPrefix(l, "//go:build") || strings.HasPrefix(l, "// +build") {
				continue
			}
			lines = append(lines, l)
		}
		text = "// Code generated by /verif/tools/instrument from utils/xor/xor_old.go (build constraint removed). DO NOT EDIT.\n\n" +
			pkgLine.ReplaceAllString(strings.Join(lines, "\n"), "package xorold") +
			"\n\n// Available is true: generated from the working-tree file.\nconst Available = true\n\n" +
			"// VerifFast calls fastXORBytes directly.\nfunc VerifFast(dst, a, b []byte, n int) { fastXORBytes(dst, a, b, n) }\n\n" +
			"// VerifSafe calls safeXORBytes directly.\nfunc VerifSafe(dst, a, b []byte, n int) { safeXORBytes(dst, a, b, n) }\n"
	}
	return writeIfChanged(dst, text)
}
