package main

// instrumentAll is filled in by the yield/clock pass (see yield.go).
func instrumentAll(repo, out string, full *overlay) error {
	return nil
}
