module instrument

go 1.23
