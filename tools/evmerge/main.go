// evmerge prints the number of distinct 64-bit hashes in the given files.
package main

import (
	"encoding/binary"
	"fmt"
	"os"
	"slices"
)

func main() {
	var all []uint64
	for _, p := range os.Args[1:] {
		b, err := os.ReadFile(p)
		if err != nil {
			continue
		}
		for i := 0; i+8 <= len(b); i += 8 {
			all = append(all, binary.LittleEndian.Uint64(b[i:]))
		}
	}
	slices.Sort(all)
	n := 0
	for i, h := range all {
		if i == 0 || h != all[i-1] {
			n++
		}
	}
	fmt.Println(n)
}
