module evmerge

go 1.23
