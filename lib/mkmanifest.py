#!/usr/bin/env python3
"""Writes MANIFEST.json from lib/units.py and lib/claims.py."""
import json
import os
import sys

HERE = os.path.dirname(os.path.abspath(__file__))
sys.path.insert(0, HERE)
from units import PROPS  # noqa
from claims import CLAIMS, PENDING_REASON  # noqa
try:
    from claims import NOT_APPLICABLE
except ImportError:
    NOT_APPLICABLE = {}

VERIF = os.path.dirname(HERE)
all_ids = [json.loads(l)["id"] for l in open(os.path.join(VERIF, "properties.jsonl"))]

checks = []
na = []
for pid in all_ids:
    if pid in PROPS and pid in CLAIMS:
        c = CLAIMS[pid]
        checks.append({
            "property_id": pid,
            "quick_cmd": "./check %s quick" % pid,
            "thorough_cmd": "./check %s thorough" % pid,
            "evidence_file": "evidence/%s.json" % pid,
            "replay_cmd_template": "./check %s --replay {path}" % pid,
            "engine": c["engine"],
            "level_claimed": {"category": "exploration", "text": c["text"], "design_ref": c["design_ref"]},
            "level_note": c["note"],
            "technique": c["technique"],
        })
    else:
        na.append({"property_id": pid, "reason": NOT_APPLICABLE.get(pid, PENDING_REASON)})

manifest = {
    "version": 1,
    "setup_cmd": "./check --setup",
    "hooks": {
        "guard": "verif",
        "enable": "no hook is committed to /repo: in-package export shims (shims/<pkg>/zz_verif_*.go) and the yield/clock-instrumented copies of working-tree files are generated at check time by tools/instrument and supplied through 'go test -overlay'; without the overlay the repository builds exactly as committed",
        "baseline_off_cmd": "cd /repo && go test -vet=off -count=1 -timeout 25m ./...",
        "source_commits": [],
        "add_only": True,
    },
    "engines": [
        {"name": "rapid-models", "path": "harness/", "kind_free_text": "pgregory.net/rapid v1.3.0 generators and state machines compared with reference models (harness/<topic>/model*.go); evidence via harness/ev"},
        {"name": "sched", "path": "harness/sched", "kind_free_text": "controlled scheduler: rapid draws which goroutine advances at every lock/channel/select operation of yield-instrumented working-tree files"},
        {"name": "vclock", "path": "harness/vclock", "kind_free_text": "virtual clock and fake timers substituted by the source-to-source pass"},
        {"name": "race", "path": "harness/race", "kind_free_text": "rapid-generated client programs executed under the Go race detector"},
        {"name": "gofuzz", "path": "harness/*/fuzz_test.go", "kind_free_text": "native go test -fuzz targets with the semantic oracle inside (thorough tier only)"},
    ],
    "checks": checks,
    "not_applicable": na,
    "notes": "All checks are generated-input search against explicit oracles (property-based testing / fuzzing); level 'exploration' throughout. KNOWN_FINDINGS.jsonl lists repaired ('fixed') and recorded ('known') defects of the pinned tree. ./selftest applies mutants/ and seeded/ patches and expects every quick check to turn red.",
}
for e in manifest["engines"]:
    e["serves_properties"] = [c["property_id"] for c in checks if c["engine"] == e["name"]]
json.dump(manifest, open(os.path.join(VERIF, "MANIFEST.json"), "w"), indent=1)
print("MANIFEST.json: %d checks, %d not_applicable" % (len(checks), len(na)))
