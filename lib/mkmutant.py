#!/usr/bin/env python3
"""mkmutant.py <ID> <name> <repo-relative file> <old> <new> [count]
Writes mutants/<ID>/<name>.patch replacing the (count-th, default only)
occurrence of old by new in the current /repo file."""
import difflib
import os
import sys

pid, name, rel, old, new = sys.argv[1:6]
nth = int(sys.argv[6]) if len(sys.argv) > 6 else None
src = open(os.path.join("/repo", rel)).read()
cnt = src.count(old)
if cnt == 0 or (cnt > 1 and nth is None):
    sys.exit("old text occurs %d times in %s" % (cnt, rel))
if nth is None:
    dst = src.replace(old, new)
else:
    parts = src.split(old)
    dst = old.join(parts[:nth]) + new + old.join(parts[nth:])
diff = difflib.unified_diff(src.splitlines(True), dst.splitlines(True), "a/" + rel, "b/" + rel)
out = os.path.join(os.path.dirname(os.path.dirname(os.path.abspath(__file__))), "mutants", pid)
os.makedirs(out, exist_ok=True)
open(os.path.join(out, name + ".patch"), "w").write("".join(diff))
print("wrote", os.path.join(out, name + ".patch"))
