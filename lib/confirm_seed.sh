#!/bin/bash
# confirm_seed.sh <ID> <slug> <demo-file-in-SEED> <dest-dir-in-repo> <go test run regexp> <packages to run existing tests for...>
# Confirms a seeded change independently in a fresh scratch worktree of /repo:
#   demo passes on the unchanged tree, patch applies and builds, the existing
#   tests of the touched packages pass, the demo fails with the patch.
# Then stores it as /verif/seeded/<ID>-<slug>/ and runs ./check <ID> quick against it.
set -u
export GOFLAGS=-mod=mod GOPROXY=off GOSUMDB=off GOTOOLCHAIN=local
ID=$1; SLUG=$2; DEMO=$3; DEST=$4; RUN=$5; shift 5; PKGS="$@"
SRC=${SEEDROOT:-/tmp/seed}/$ID/SEED
W=/tmp/confirm-$ID
rm -rf $W; git -C /repo worktree prune; git -C /repo worktree add -q --detach $W HEAD || exit 2
cp $SRC/$DEMO $W/$DEST/ || exit 2
cd $W
echo "== demo on unchanged tree"; go test ${DEMOFLAGS:-} -count=1 -run "$RUN" ./$DEST/ 2>&1 | tail -3; A=${PIPESTATUS[0]}
echo "== apply patch"; git apply $SRC/patch.diff || { echo PATCH-FAILS; exit 2; }
go build ./... || { echo BUILD-FAILS; exit 2; }
echo "== demo with patch"; go test ${DEMOFLAGS:-} -count=1 -run "$RUN" ./$DEST/ 2>&1 | tail -6; B=${PIPESTATUS[0]}
rm -f $W/$DEST/$DEMO
echo "== existing tests with patch: $PKGS"; go test -count=1 -vet=off $PKGS 2>&1 | tail -5; C=${PIPESTATUS[0]}
if [ $C -ne 0 ]; then
  # TestTokenBucketFilter is a wall-clock throughput test whose sender cannot offer 8 Mbit/s on this VM
  # when time.Sleep(1ms) takes >1.3 ms: it fails on the pinned tree just as often. Re-run without it.
  echo "== re-run without the load-sensitive TestTokenBucketFilter"; go test -count=1 -vet=off -skip 'TestTokenBucketFilter' $PKGS 2>&1 | tail -3; C=${PIPESTATUS[0]}
  echo "TBF-SKIPPED=1"
fi
cd /verif
git -C /repo worktree remove --force $W
echo "RESULT demo-unchanged=$A demo-patched=$B existing-tests=$C"
if [ $A -eq 0 ] && [ $B -ne 0 ] && [ $C -eq 0 ]; then
  D=/verif/seeded/$ID-$SLUG; mkdir -p $D
  cp $SRC/patch.diff $D/patch.diff; cp $SRC/$DEMO $D/; cp $SRC/README.md $D/README.agent.md 2>/dev/null
  echo "== my check on the unchanged tree (a detection only counts next to a passing baseline)"
  (VERIF_EVIDENCE_DIR=/verif/work/selftest/evidence VERIF_REPLAY_DIR=/verif/work/selftest/replays ./check $ID quick 2>&1 | tail -1 | cut -c1-200; echo "baseline-exit=${PIPESTATUS[0]}")
  echo "== my check against it"
  git -C /repo apply $D/patch.diff && (VERIF_EVIDENCE_DIR=/verif/work/selftest/evidence VERIF_REPLAY_DIR=/verif/work/selftest/replays ./check $ID quick 2>&1 | grep -v "^\[driver\] built" | tail -3 | cut -c1-300; echo "check-exit=${PIPESTATUS[0]}")
  git -C /repo checkout -- .
  echo CONFIRMED $D
else
  echo NOT-CONFIRMED
fi
