"""Per-property text for MANIFEST.json (technique, level text, trusted base)."""

CLAIMS = {
    "C04": {
        "technique": "rapid-generated check/accept histories against an accepted-set invariant (plain and wrapping detector)",
        "engine": "rapid-models",
        "text": "Generated-input search: detector kind, window size (aimed at every 64-bit word boundary), maximum (unrelated to the window, tiny to 2^64-1) and a history of up to 200 check/accept calls (accept callbacks invoked at once, never, or late, after other numbers were accepted) are drawn by rapid; the invariant 'no successful check of a number whose accept callback ran, none above the maximum, no panic' is evaluated at every step. No counter-example in the cases counted in the evidence; not a proof.",
        "note": "Trusted: the harness's bookkeeping of which accept callbacks it invoked; for the wrapping detector the unwrapped-position model (cycle, seq) that decides when the same number denotes a new packet. The two numbers nearest the half-space boundary are never accepted by the harness.",
        "design_ref": "DESIGN.md §3 C04",
    },
    "C05": {
        "technique": "rapid-generated histories compared step by step with a reference model of the sliding-window rule (differential, both directions)",
        "engine": "rapid-models",
        "text": "Generated-input search inside the stated domain: every Check result and every accept() return value of up to 200-step histories is compared with a reference model (accepted set + newest accepted number) written from the statement; ~30% of successful checks are deliberately left un-accepted so that any side effect of Check shows up as a later disagreement. Exploration only.",
        "note": "Trusted: the reference model (harness/replay/model.go). 'Either' is answered for the two numbers nearest the half-space boundary, as the statement allows.",
        "design_ref": "DESIGN.md §3 C05",
    },
}

CLAIMS["C06"] = {
    "technique": "rapid state machine over packetio.Buffer compared with a FIFO-of-byte-slices model; free-running concurrent writers/readers with tagged packets",
    "engine": "rapid-models",
    "text": "Generated-input search: histories of Write/Read/SetLimit*/Close with lengths aimed at the ring end, the growth sizes and the 65535/65536 boundary are applied to the real Buffer and to a FIFO model; every Read is compared byte for byte, the writer's slice is scribbled over after every Write, and the final drain compares everything left. A second test runs real goroutines (1..3 writers, 1..2 readers) with tagged packets and checks exactly-once, intact contents and per-writer order; a quarter of these cases push 4200..20000-byte packets through a size limit that admits two of them (writers retry on ErrFull), so the ring is overwritten while readers copy. Exploration only; the controlled-schedule concurrency lives in C08.",
    "note": "Trusted: the FIFO model. A read-only shim (shims/packetio) exposes head/tail/capacity for case classification only; the oracle does not use it.",
    "design_ref": "DESIGN.md §3 C06",
}
CLAIMS["C07"] = {
    "technique": "rapid state machine with limit-aimed lengths; Count/Size and every accept/ErrFull verdict compared with the model after every operation (also under the packetioSizeHardlimit tag)",
    "engine": "rapid-models",
    "text": "Generated-input search: size limits around every growth size of the ring, 4 MiB +-3 and 5 MiB, count limits 0..6, changed at drawn points; write lengths derived from 'bytes missing to the active limit' in -3..3; after every operation Count() and Size() must equal the model and every Write must be accepted or refused with ErrFull exactly as the stated rule says (a write reaching exactly 4 MiB without a limit is 'either'). Also run against a build with the packetioSizeHardlimit tag. Exploration only.",
    "note": "Trusted: the model's reading of the rule (harness/pktbuf/model.go WriteVerdict). Negative limits are not generated (undocumented).",
    "design_ref": "DESIGN.md §3 C07",
}
CLAIMS["C20"] = {
    "technique": "exhaustive enumeration of lengths x offsets x aliasing against a byte-wise reference, plus rapid cases up to 5000 bytes; xor_old.go compiled with its build constraint stripped",
    "engine": "rapid-models",
    "text": "Enumerated and generated inputs: all (len a, len b) up to 24 (quick) / 40 (thorough), all start offsets 0..7 of the three slices, aliasing none/dst==a/dst==b and three destination lengths, for the toolchain-selected XorBytes and for XorBytes, fastXORBytes and safeXORBytes of xor_old.go (compiled from the working tree with the build line removed); result, return value and every guard byte of the three backing arrays are compared with a byte-wise reference. rapid adds lengths up to 5000 and k*65536 +- 1, all three slices cut from one allocation in a drawn order (disjoint, or the destination identical to one source; two-index slices whose capacity runs on into their neighbours, every other byte of the allocation compared), and structured contents (all zero, all 0xFF, runs of zero bytes, small alphabets besides pseudo-random bytes); a native fuzz target exists for the thorough tier. Exhaustive within the stated bounds, exploration beyond.",
    "note": "xor_arm.go/xor_arm.s cannot be built or run on amd64 and are not covered. Trusted: the byte-wise reference loop.",
    "design_ref": "DESIGN.md §3 C20",
}

CLAIMS["C08"] = {
    "technique": "rapid-drawn schedules over yield-instrumented source (controlled scheduler), quiescence invariant",
    "engine": "sched",
    "text": "The harness owns the schedule: tools/instrument inserts a yield before every lock/unlock/channel/select operation of the working-tree packetio/buffer.go and deadline/deadline.go (supplied via -overlay), reader/writer/closer/deadline tasks (past, zero and virtual-clock future deadlines with their timer callbacks as tasks) are serialised by harness/sched, and rapid draws which task advances (four strategies incl. 'hold tasks before a blocking operation'). At true quiescence (every task finished or seen parked in a runtime blocking state) the oracle demands: no reader parked while Count()>0, none after Close, none under a passed deadline; reads+buffered==writes; drain to EOF. Exploration of drawn schedules, not exhaustive.",
    "note": "Trusted: goroutine wait states reported by runtime.Stack; yield granularity = synchronisation operations of the two files; the runtime's choice among ready select cases is not controlled. Future read deadlines run on a virtual clock (timer callbacks as tasks); real timers are exercised in C10.",
    "design_ref": "DESIGN.md §2.3, §3 C08",
}
CLAIMS["C09"] = {
    "technique": "rapid-generated Set/advance/callback histories on a virtual clock with fake timers (dispatched-but-not-run callbacks), invariant after every step",
    "engine": "vclock",
    "text": "time.Until/time.AfterFunc of the working-tree deadline package are redirected (source-to-source, via -overlay) to a virtual clock whose fake timers follow the Stop/Reset contract; a due timer becomes 'dispatched' and its callback is run by the harness later, in any order, with several outstanding. After every step of up to 40-step histories: signalled only if the latest Set time is non-zero and passed; exact agreement when no callback is outstanding; fresh Done channel after expiry; Deadline() == latest Set. Times include the far future (year 9999, Unix(2^40), now + the largest Duration), deadlines that creep (L + 1..999 us) and sub-millisecond clock advances. A controlled-schedule variant runs 1..3 setter tasks against clock and callback tasks at the granularity of every lock operation of deadline.go and checks the settle-state invariant. Exploration only.",
    "note": "Trusted: the fake timer's fidelity to time.AfterFunc semantics (Stop/Reset return false once the callback goroutine has been started). Real-timer behaviour is exercised by C10.",
    "design_ref": "DESIGN.md §2.4, §3 C09",
}

CLAIMS["C18"] = {
    "technique": "rapid state machines: Bridge vs a model of the scripted impairments (hand-offs counted exactly), dpipe vs FIFO-per-direction model",
    "engine": "rapid-models",
    "text": "Generated-input search: histories of writes in both directions interleaved with DropNextNWrites, ReorderNextNWrites (repeatedly, n=1..4), Drop, Reorder, Filter, Tick and Process, with truncating and non-truncating readers, also with readers that start at a drawn later step (every Tick before that must hand over nothing); a reader must never see an error while both endpoints are open; the model applies the script to two queues and every hand-over is attributed by queue-length deltas, so the comparison 'reader received exactly the model's sequence' does not depend on timing; combinations the documentation leaves unspecified fall back to the weak oracle (no duplicate, nothing invented, intact). dpipe: FIFO per direction, one message per read, truncation, close of one end; a second machine fills a direction to its capacity of 1000 messages, parks further writers inside Write and closes either end: every write that reported success is read by the peer exactly once. Two free-running units run Bridge writers, readers and Tick/Process concurrently (exactly-once, per-direction order where no reordering is scripted) and Tick against ReorderNextNWrites. Exploration only.",
    "note": "Trusted: the model's order of script application (drop counter, reorder batch, filter) for the unambiguous cases; Bridge.SetLossChance and write deadlines are not exercised.",
    "design_ref": "DESIGN.md §3 C18",
}

CLAIMS["C16"] = {
    "technique": "rapid-generated streams through the loss filter into a recording sink: equality / emptiness / subsequence oracle and a 6-sigma binomial bound",
    "engine": "rapid-models",
    "text": "Generated-input search: chances {0,1,5,50,95,99,100,101,1000, negative} and uniform 0..100, streams of 0..2000 tagged chunks (40000 for the statistical cases) are pushed through NewLossFilter in front of a sink NIC; (UDP chunks and TCP segments with drawn control bits); chance 0 must forward everything, chance >= 100 nothing, the output is always an in-order, duplicate-free, byte-identical subsequence whose chunks show the same String(), Tag(), Network() and addresses as on arrival, and on 40000 chunks the dropped count must lie within 6 sigma of N*p. An end-to-end variant attaches NewLossFilter(host) to a router through the public API and checks the same on what the socket behind it receives. A long-stream unit pushes 16 million arrivals through one filter and applies the 6-sigma bound at every power-of-two stream length from 65536 on. A concurrent unit lets 2..8 goroutines push 20000..80000 chunks each through one filter at the same time (no panic, chance 0 loses nothing, per-goroutine subsequence, 6 sigma on the total). Exploration plus statistical tests.",
    "note": "Trusted: in-package sink shim (shims/vnet); the statistical assertion has a false-alarm probability below 2e-9 per case.",
    "design_ref": "DESIGN.md §3 C16",
}
CLAIMS["C02"] = {
    "technique": "rapid-generated outbound/inbound/advance histories against an RFC 4787 mapping model on a virtual clock (external addresses learned, then constrained); 1:1 mode table; port-space scenario; end-to-end regression",
    "engine": "vclock",
    "text": "Generated-input search on the translator itself (in-package shim) with time.Now redirected to a virtual clock: all 9 mapping x filtering behaviours, 3 lifetimes, 1..4 internal endpoints, 1..5 remotes, advances of {0,1/3,2/3,1-e,1,1+e,3} lifetimes. Same key and live => same external address; new key => valid address unlike every live mapping's; idle > lifetime ends the mapping; inbound never prolongs it. 1:1 mode: paired IP rewritten both ways, port preserved. Look-alike address pools (5.6.7.8/5.6.7.80, ports 70/700/7000) and 4-byte/16-byte net.IP forms of one address are part of the domain. A scenario requests 16380..16400 mappings (more than the dynamic port range), with and without expiry. An end-to-end variant drives real routers on the real clock (lifetime 30 ms; outbound, inbound, pauses inside and past the lifetime) and decides reuse, expiry and 'inbound never prolongs' from write/receive timestamps: a datagram is translated between its write and its receipt (for outbound datagrams: between leaving the LAN router's queue and leaving the WAN router's, noted by chunk filters; a third of the NAT routers hold datagrams back for a third or half of the lifetime), so no timing margin enters the verdict. Exploration only.",
    "note": "Trusted: the model (harness/vnat/model.go); an idle time of exactly one lifetime is 'either'; a translation that returns an error hands out nothing and is flagged only when a live mapping exists for the key (the end-to-end regression decides whether the router keeps forwarding).",
    "design_ref": "DESIGN.md §3 C02, Appendix A",
}
CLAIMS["C03"] = {
    "technique": "rapid-generated histories with inbound emphasis against the permission model; refused datagrams leave the model untouched so side effects surface later",
    "engine": "vclock",
    "text": "Same harness as C02 with 55% inbound events to learned, expired, never-allocated and foreign external addresses from contacted, same-IP-other-port and never-contacted remotes: forwarded iff a live mapping owns the address and the remote matches a recorded permission; then to exactly the creator, source and payload unchanged and not aliasing the input. The model ignores refused datagrams, so a permission, refresh or mapping created by one shows up as a later disagreement. 1:1 mode: paired external IP -> paired local IP, unpaired dropped. The end-to-end expiry variant of C02 also decides C03 through real routers: permitted remotes are forwarded to the owner while the mapping is certainly live, others refused, everything dropped once it is certainly gone (negative answers through a FIFO marker datagram). Exploration only.",
    "note": "Trusted: the model; 'exactly one lifetime idle' is either.",
    "design_ref": "DESIGN.md §3 C03, Appendix A",
}

CLAIMS["C15"] = {
    "technique": "rapid-generated arrival patterns on a virtual clock; all-pairs interval inequality over the forwarding log, head-of-queue identity, discard-only-when-full",
    "engine": "vclock",
    "text": "vnet/tbf.go is compiled with time.Now/time.Since redirected to a virtual clock that advances only while the filter goroutine is parked in its select, so every forwarding event has an exact timestamp. For generated rates, bursts, queue sizes, 5..300 arrivals with gaps around the old 100 ms refill threshold and run-time Set(TBFRate|TBFMaxBurst) (every 25th, 4th or 2nd arrival; to far-apart values or to the current rate +-1/8 bit/s), the oracle checks for all pairs i<=j of forwarding events sum(bytes) <= B + R*(t_j-t_i)/8 (B, R = maxima configured during the interval), that each forwarded chunk is the oldest queued object with unchanged contents, and that a discard happens only when queued bytes + length >= queue size. Exploration only.",
    "note": "Trusted: goroutine-state barrier (runtime.Stack) that decides when the filter loop is parked; a read-only shim exposes the queue occupancy. Forwarding during Close is not checked.",
    "design_ref": "DESIGN.md §3 C15",
}

CLAIMS["C14"] = {
    "technique": "rapid-generated arrival plans against DelayFilter (in-package sink, panic trap) and a MinDelay/MaxJitter router (public API); lower-bound timing, order, exactly-once and liveness oracle",
    "engine": "rapid-models",
    "text": "Generated-input search on the real clock: delays {0,1us,50us,1ms,5ms,20ms}, 1..4 concurrent senders with bursts and gaps around the delay value through DelayFilter.Run (started by the harness with a recover trap), and MinDelay {0,1ms,10ms} x MaxJitter {0,2ms} routers with 1..3 sending sockets end to end, optionally with a slow pass-through chunk filter (forwarding takes 0.6..1.6 x MinDelay) and a tail of datagrams that fall due while the loop is busy, followed by silence. Oracle: forwarded no sooner than the delay after hand-in (monotonic stamps; noise can only make it more true), each chunk exactly once, unmodified, per-sender order, the loop never panics, everything forwarded within delay + 3 s. A nested variant puts two routers with independent MinDelay on one path and checks each hop's lower bound through chunk-filter probes (a hop's delay cannot be paid with time spent in another router). A controlled-schedule variant runs Run and the senders as scheduler tasks over the yield-instrumented delay_filter.go/chunk_queue.go (arrival notification vs. timer branch) with the terminal-quiescence rule. Exploration only.",
    "note": "Real clock: a tree that is early by less than the timer resolution could be missed; a slow machine cannot cause an alarm (lower bound and a 3 s liveness margin backed by a goroutine dump).",
    "design_ref": "DESIGN.md §3 C14",
}

CLAIMS["C13"] = {
    "technique": "rapid-generated attachment sequences (router address assignment) and a rapid state machine over a host's bind table, both through the public API with probe datagrams",
    "engine": "rapid-models",
    "text": "Generated-input search: (1) sequences of up to 40 (or 250..260) host/child-router attachments with automatic, static-in-subnet, static-in-automatic-range (also at its edges .1/.2/.253/.254), static-outside-subnet and double static addresses on /24, /16 and /28 routers; after each attachment no automatically assigned address is held by another NIC, every address lies inside the subnet or an error was returned, exhaustion is reported instead of reuse, and a probe datagram to every address reaches its holder. (2) ListenUDP/ListenPacket/Dial/DialUDP/Close/close-again histories on a host with 1..3 IPs against a bind-table model (wildcard/specific/loopback, port 0 and a pre-filled 5000..5999 range), with probe datagrams that must be received by exactly the covering open socket or by nobody (a marker datagram through the same router queue makes negative answers decidable without sleeping). Exploration only.",
    "note": "Trusted: the bind-table model; a read-only shim exposes the receive-queue length of a socket so that the harness reads exactly what has arrived. Two identical static addresses are never generated (unconstrained by the statement).",
    "design_ref": "DESIGN.md §3 C13",
}

CLAIMS["C17"] = {
    "technique": "rapid-drawn programs and schedules over the yield-instrumented context wrappers (operation, canceller and watcher goroutines as scheduler tasks), quiescence oracle with a deadline-recording decorator",
    "engine": "sched",
    "text": "The harness owns the schedule of netctx.Conn, netctx.PacketConn and connctx over net.Pipe: every lock/channel/select/WaitGroup operation, every call on the wrapped connection and every go statement of the three wrapper files yields to the controller, so 'the context fires while data is being handed over' and 'the watcher sees ctx.Done after the read returned' are drawn choices; in a quarter of the programs the operations of one kind on one end are issued by two tasks, so that operations wait for their turn behind each other (also: cancelled while waiting). At quiescence (confirmed by two whole-process snapshots): every operation whose context is done has returned (unless it still waits for its turn behind an operation of its kind with a live context); 0 bytes => exactly the context's error; bytes received == bytes reported written (+ a prefix of a write in flight); a decorator around the wrapped conn shows no deadline left after any returned operation. A second, free-running variant runs drawn programs on real goroutines and the real clock (stream wrappers over net.Pipe, netctx.PacketConn over a loopback UDP pair) with contexts that time out or are cancelled 0..2 ms into the operation, followed by probe reads with fresh contexts until everything reported written has arrived: same per-operation rules, byte/message conservation in order, nothing beyond. Exploration of drawn schedules and timings.",
    "note": "Trusted: net.Pipe as the wrapped connection (atomic for the scheduler), goroutine wait states from runtime.Stack. Wrapped connections that ignore deadlines are outside the statement.",
    "design_ref": "DESIGN.md §3 C17",
}

CLAIMS["C11"] = {
    "technique": "rapid state machine over a real loopback listener against a remote->connection/backlog model, marker datagrams for negative answers; concurrent bursts with isolation/order/duplicate oracle",
    "engine": "rapid-models",
    "text": "Generated-input search on real sockets: backlog {1,2,4,128}, accept filter on/off, batch reading off/2/8, listener on 127.0.0.1, on the unspecified address of a dual-stack socket, on 0.0.0.0 or on [::1], 1..6 remotes (different ports, other addresses of 127/8 with one port, on the dual-stack listener IPv6 remotes with the port of an IPv4 one); steps send / accept / read / close / send-again / gated bursts (datagrams of several remotes, accepted, refused, overflowing, written while the read loop is held and dispatched from one batch); after every send a marker datagram from an always-accepted remote is read back, which proves (single-threaded FIFO read loop) that the earlier datagram has been dispatched, so 'created nothing' is decided without sleeping; a marker that never comes out of its connection although the next one does was dropped by the listener. Accept order and RemoteAddr, every Read (byte-identical next datagram of that remote), backlog overflow, filter refusal and reconnect-after-close (fresh object) are compared with the model; finally the backlog must hold nothing the model does not know. A concurrent test checks isolation, per-remote order, no duplicates and unique RemoteAddr under bursts. A controlled-schedule variant runs connection Close, per-remote senders and Accept as scheduler tasks over the yield-instrumented conn.go (a datagram arriving while the Close of its connection is under way) and then checks with real I/O that no two open connections share a remote and that a final datagram per remote is readable from exactly one. Exploration only.",
    "note": "Assumes in-order, loss-free loopback delivery at the sequential test's volumes (one datagram in flight at a time); the concurrent test does not assert completeness. Datagrams above the receive MTU are not generated.",
    "design_ref": "DESIGN.md §3 C11",
}
CLAIMS["C12"] = {
    "technique": "rapid-drawn schedules over yield-instrumented udp/conn.go with real sockets (controlled scheduler + terminal quiescence rule), then real-I/O liveness probes",
    "engine": "sched",
    "text": "Setup creates 0..3 accepted and 0..2 un-accepted connections with real datagrams; the controlled phase runs listener.Close, conn.Close (also twice, also while its remote sends again and Accept takes the successor), Accept, Read, Write queued behind the batch writer, a full accept backlog, the connection's own remote sending while its one Close runs, and late datagrams (also with the read loop parked inside a gated AcceptFilter while Close runs) as tasks in a rapid-drawn schedule over every lock/atomic/channel/WaitGroup operation of udp/conn.go and packetio/buffer.go; the listener's own goroutines run free and the run ends only when two whole-process snapshots show every goroutine parked. Oracle: no Close blocks, Accept fails after Close or its connection counts as accepted, reads of closed connections return; then with real I/O: everything closed => the port can be bound again at once (a failed bind counts only if /proc shows a socket of this process still holding the port) and no goroutine of the package remains; otherwise every accepted unclosed connection still sends and receives ('never earlier') and an open listener still accepts. Exploration of drawn schedules.",
    "note": "Trusted: goroutine wait states from runtime.Stack; netpoller wake-ups are not controlled; liveness waits of 3 s. The batch flush ticker goroutine is expected to exit within that margin.",
    "design_ref": "DESIGN.md §2.3, §3 C12",
}

CLAIMS["C10"] = {
    "technique": "rapid-generated deadline/idle/inject/read histories run in parallel on five connection types on the real clock (both GODEBUG timer semantics), timestamp oracle",
    "engine": "rapid-models",
    "text": "Generated-input search: each history of SetReadDeadline(zero|past|+8..30 ms|+10 s), far-future deadlines, re-applying the value in force, keep-alive loops (now+12 ms every 300 us for 12..24 ms with a read started on the way), idle periods, data arrivals and reads (at most one outstanding, optionally left parked while later steps run) is executed on packetio.Buffer, a dpipe end, a udp listener connection over a real socket, a vnet UDPConn behind a router and a Bridge endpoint, under GODEBUG=asynctimerchan=1 and =0. From monotonic timestamps and the list of deadlines in force during each call: a timeout is legal only if a non-zero deadline in force had passed at return; data is illegal once a read has timed out under the same unchanged deadline; an outstanding read is released within 2 s of its deadline, or by data when none is pending. A virtual-clock variant runs packetio.Buffer, dpipe and a Bridge endpoint with deadline/deadline.go yield-instrumented and its timers on a virtual clock under rapid-drawn schedules (reader, deadliner, injector, clock and timer-callback tasks), so a deadline changed while an expired timer's callback has not run yet is a drawn choice; afterwards a fresh deadline is made to pass: parked reads are released, reads keep timing out with data waiting, and a zero deadline returns the data. Exploration only.",
    "note": "The runtime never fires timers early, so 'no early timeout' cannot be falsified by load; 'timeouts persist' is asserted logically (after a timeout has been observed under the same deadline) or with a 300 ms margin; liveness margins of 2-3 s. Sub-microsecond earliness could be missed.",
    "design_ref": "DESIGN.md §3 C10",
}

CLAIMS["C19"] = {
    "technique": "rapid-generated concurrent client programs executed under the Go race detector (binary built with -race, GORACE=halt_on_error=1)",
    "engine": "race",
    "text": "Generated client programs: a family of shared objects (Buffer; Deadline; dpipe pair; vnet router/hosts/sockets with ListenUDP, Dial, AddChunkFilter, Stop/Start, AddNet of fresh hosts while the router forwards; TokenBucketFilter and LossFilter under traffic with run-time Set(TBFRate|TBFMaxBurst); udp listener and connections on a real socket; parallel construction of independent networks; a LAN router behind a NAPT with outbound traffic to known and new remotes, inbound traffic to the learned external address, new sockets and mapping expiry), 2..6 goroutines with 1..8 drawn operations each, every program run twice for real. Oracle: the race detector; a report names two conflicting accesses unordered by happens-before in that run, independent of adverse timing. The program is printed before it runs; the replay command re-runs the last printed program 50 times. A second unit (in-package, also under the race detector) lets 2..5 goroutines enter one loss, token bucket or delay filter, or a chain of the three, at once through the NIC entry point while a setter reconfigures the token bucket. Exploration of the program space, no shrinking.",
    "note": "Sees only races between accesses a generated program performs; API combinations outside the catalogue and instruction-level races the detector does not instrument (assembly) are not covered.",
    "design_ref": "DESIGN.md §3 C19",
}

CLAIMS["C01"] = {
    "technique": "rapid-generated topologies and traffic plans through the public API, per-router capture filters, hop-by-hop model walk (NAPT addresses learned and constrained), exact quiescence, then concurrent replay of established flows",
    "engine": "rapid-models",
    "text": "Generated-input search: root router, up to 4 child routers nested to depth 3 with every NAPT mapping x filtering combination, static or automatic external addresses, or 1:1 NAT; hosts with automatic, single and double static addresses; specific, wildcard and loopback sockets, on two-address hosts also two sockets sharing one port; a rebind step closes and re-opens sockets. A sixth of the routers delay (MinDelay 200 us / 1 ms). Every router carries a pass-through capture filter. 5..40 sequential sends (other sockets, replies to observed translated sources, unbound ports, unroutable and loopback addresses, NAT external addresses; payloads 0..1500 incl. really empty; buffer overwritten after the write); after each the network is quiescent (all router loops parked, all queues empty) and the model of Appendix A decides: delivered iff admitted, exactly once, byte-identical, only to the socket bound to the destination, showing the translated source; then the established flows are replayed concurrently in bursts: per-flow order, no duplicates, no foreign socket, completeness. A bounded-queue variant keeps fewer than QueueSize-2 datagrams inside a delaying router and expects none to be dropped. A port-pressure variant uses up the NAPT's dynamic port range (16370..16400 filler mappings, lifetime 1 s) and lets an expired owner and the heir of its port keep exchanging requests and replies. A controlled-schedule variant re-starts the routers inside a scheduler session (every router loop becomes a task) and lets 2..3 sender tasks write on the established flows under rapid-drawn schedules over every lock/channel/select operation of router.go, net.go, conn.go, conn_map.go, chunk_queue.go and nat.go, with the same oracle at quiescence. A second controlled-schedule unit runs a root router, a NAPT LAN router and four hosts without any chunk filter (all other units observe their routers through one), end-to-end oracle only, half of its cases with a shaped schedule: the other senders first, the first datagram of an inbound flow, the router loops until the LAN queue is empty and 0..10 steps more, the rest of the flow. Exploration only.",
    "note": "Trusted: the model (harness/vnete2e/model.go, harness/vnat/model.go); goroutine states from runtime.Stack plus read-only shims for queue lengths (by reflection; an activity counter moved by the capture filters when they are unreadable, and always as a cross-check) decide quiescence. NAT lifetimes are 1 h (expiry is C02/C03).",
    "design_ref": "DESIGN.md §3 C01, Appendix A",
}

PENDING_REASON = "check not built yet in this revision of /verif (planned, see DESIGN.md §3); nothing is claimed for it"
