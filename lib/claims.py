"""Per-property text for MANIFEST.json (technique, level text, trusted base)."""

CLAIMS = {
    "C04": {
        "technique": "rapid-generated check/accept histories against an accepted-set invariant (plain and wrapping detector)",
        "engine": "rapid-models",
        "text": "Generated-input search: detector kind, window size (aimed at every 64-bit word boundary), maximum (unrelated to the window, tiny to 2^64-1) and a history of up to 200 check/accept calls are drawn by rapid; the invariant 'no successful check of a number whose accept callback ran, none above the maximum, no panic' is evaluated at every step. No counter-example in the cases counted in the evidence; not a proof.",
        "note": "Trusted: the harness's bookkeeping of which accept callbacks it invoked; for the wrapping detector the unwrapped-position model (cycle, seq) that decides when the same number denotes a new packet. The two numbers nearest the half-space boundary are never accepted by the harness.",
        "design_ref": "DESIGN.md §3 C04",
    },
    "C05": {
        "technique": "rapid-generated histories compared step by step with a reference model of the sliding-window rule (differential, both directions)",
        "engine": "rapid-models",
        "text": "Generated-input search inside the stated domain: every Check result and every accept() return value of up to 200-step histories is compared with a reference model (accepted set + newest accepted number) written from the statement; ~30% of successful checks are deliberately left un-accepted so that any side effect of Check shows up as a later disagreement. Exploration only.",
        "note": "Trusted: the reference model (harness/replay/model.go). 'Either' is answered for the two numbers nearest the half-space boundary, as the statement allows.",
        "design_ref": "DESIGN.md §3 C05",
    },
}

PENDING_REASON = "check not built yet in this revision of /verif (planned, see DESIGN.md §3); nothing is claimed for it"
