"""Table of properties -> units (what the driver builds and runs).

unit keys:
  name      label used in evidence
  pkg       package directory below harness/
  run       -test.run regexp
  kind      'rapid' (default; gets -rapid.checks/-rapid.seed) | 'plain'
  overlay   None | 'plain' (export shims only) | 'full' (yield/clock instrumented)
  race      build with -race
  checks    {'quick': N, 'thorough': N}   total cases (split over shards)
  shards    {'quick': 1, 'thorough': 16}
  timeout   {'quick': s, 'thorough': s}   go test timeout per shard
  env       extra environment
  tiers     tiers in which the unit runs (default both)
  serial    run alone (timing sensitive)
"""

def rapid_unit(name, pkg, run, q, t, shards_t=16, **kw):
    u = {"name": name, "pkg": pkg, "run": run, "kind": "rapid",
         "checks": {"quick": q, "thorough": t},
         "shards": {"quick": 1, "thorough": shards_t},
         "timeout": {"quick": 300, "thorough": 1500}}
    u.update(kw)
    return u


def plain_unit(name, pkg, run, **kw):
    u = {"name": name, "pkg": pkg, "run": run, "kind": "plain",
         "shards": {"quick": 1, "thorough": 1},
         "timeout": {"quick": 300, "thorough": 1500}}
    u.update(kw)
    return u


def fuzz_unit(name, pkg, target, seconds, **kw):
    u = {"name": name, "pkg": pkg, "run": "^$", "kind": "fuzz", "fuzz": "^%s$" % target,
         "fuzztime": {"thorough": seconds}, "tiers": ("thorough",),
         "shards": {"quick": 1, "thorough": 1},
         "timeout": {"quick": 300, "thorough": seconds + 900}}
    u.update(kw)
    return u


PROPS = {
    "C04": {"units": [
        plain_unit("regress", "replay", "^TestRegressC04"),
        rapid_unit("plain", "replay", "^TestC04Plain$", 30000, 16 * 400000),
        rapid_unit("wrapping", "replay", "^TestC04Wrapped$", 30000, 16 * 400000),
        fuzz_unit("fuzz", "replay", "FuzzC04", 90),
    ]},
    "C05": {"units": [
        plain_unit("regress", "replay", "^TestRegressC05"),
        rapid_unit("plain", "replay", "^TestC05Plain$", 30000, 16 * 400000),
        rapid_unit("wrapping", "replay", "^TestC05Wrapped$", 30000, 16 * 400000),
        fuzz_unit("fuzz", "replay", "FuzzC05", 90),
    ]},
}

PROPS["C06"] = {"units": [
    plain_unit("regress", "pktbuf", "^TestRegressC06", overlay="plain"),
    rapid_unit("sequential", "pktbuf", "^TestC06Sequential$", 3000, 16 * 40000, overlay="plain"),
    rapid_unit("concurrent-free", "pktbuf", "^TestC06Concurrent$", 1500, 16 * 20000, overlay="plain"),
    rapid_unit("schedules", "pktsched", "^TestC06Schedules$", 800, 16 * 8000, overlay="full"),
    fuzz_unit("fuzz", "pktbuf", "FuzzC06C07", 90, overlay="plain"),
]}
PROPS["C07"] = {"units": [
    plain_unit("regress", "pktbuf", "^TestRegressC07", overlay="plain"),
    rapid_unit("limits", "pktbuf", "^TestC07Limits$", 3000, 16 * 30000, overlay="plain"),
    rapid_unit("limits-hardlimit-tag", "pktbuf", "^TestC07Limits$", 1000, 16 * 8000, overlay="plain",
               tags=["packetioSizeHardlimit"], env={"VERIF_HARDLIMIT": "1"}),
]}

PROPS["C20"] = {"units": [
    plain_unit("sweep", "xor", "^TestC20Sweep$", overlay="plain"),
    rapid_unit("rapid", "xor", "^TestC20Rapid$", 30000, 16 * 300000, overlay="plain"),
    rapid_unit("page-end", "xor", "^TestC20PageEnd$", 4000, 16 * 40000, overlay="plain"),
    fuzz_unit("fuzz", "xor", "FuzzC20", 90, overlay="plain"),
]}

PROPS["C09"] = {"units": [
    plain_unit("regress", "dl", "^TestRegressC09", overlay="full"),
    rapid_unit("sequential", "dl", "^TestC09Sequential$", 50000, 16 * 1000000, overlay="full"),
    rapid_unit("schedules", "dl", "^TestC09Schedules$", 1000, 16 * 8000, overlay="full"),
]}

PROPS["C08"] = {"units": [
    plain_unit("regress", "pktsched", "^TestRegressC08", overlay="full"),
    rapid_unit("schedules", "pktsched", "^TestC08Schedules$", 2500, 16 * 15000, overlay="full", shrinktime="5s"),
]}

PROPS["C18"] = {"units": [
    plain_unit("regress", "bridge", "^TestRegressC18"),
    rapid_unit("bridge", "bridge", "^TestC18Bridge$", 1500, 16 * 15000),
    rapid_unit("dpipe", "bridge", "^TestC18Dpipe$", 5000, 16 * 100000),
    rapid_unit("dpipe-full", "bridge", "^TestC18DpipeFull$", 300, 16 * 3000, shrinktime="2s"),
    rapid_unit("dpipe-interrupt", "bridge", "^TestC18DpipeInterrupt$", 600, 16 * 8000, shrinktime="3s"),
    rapid_unit("bridge-concurrent", "bridge", "^TestC18BridgeConcurrent$", 200, 16 * 2000, shrinktime="3s"),
    rapid_unit("bridge-tick-vs-reorder", "bridge", "^TestC18BridgeTickVsReorder$", 200, 16 * 2000, shrinktime="3s"),
]}

PROPS["C16"] = {"units": [
    rapid_unit("in-package", "vfilter", "^TestC16Loss$", 1500, 16 * 6000, overlay="full"),
    rapid_unit("e2e", "vnete2e", "^TestC16LossE2E$", 150, 16 * 1000, overlay="plain"),
    rapid_unit("long-stream", "vfilter", "^TestC16LongStream$", 10, 16 * 40, overlay="full", shrinktime="1s"),
    rapid_unit("concurrent-arrivals", "vfilter", "^TestC16Concurrent$", 60, 16 * 300, overlay="full", shrinktime="3s"),
    rapid_unit("every-chance", "vfilter", "^TestC16EveryChance$", 2, 16 * 6, overlay="full", shrinktime="1s"),
]}

PROPS["C02"] = {"units": [
    plain_unit("regress", "vnat", "^TestRegressC02", overlay="full"),
    plain_unit("regress-e2e", "vnete2e", "^TestRegressC02", overlay="plain"),
    rapid_unit("napt-in-package", "vnat", "^TestC02NAPT$", 10000, 16 * 200000, overlay="full"),
    rapid_unit("one-to-one", "vnat", "^TestC02OneToOne$", 5000, 16 * 50000, overlay="full"),
    rapid_unit("port-space", "vnat", "^TestC02PortSpace$", 24, 16 * 30, overlay="full"),
    rapid_unit("expiry-e2e", "vnete2e", "^TestC02ExpiryE2E$", 200, 16 * 600, overlay="plain", shrinktime="5s"),
]}
PROPS["C03"] = {"units": [
    plain_unit("regress", "vnat", "^TestRegressC03", overlay="full"),
    rapid_unit("napt-in-package", "vnat", "^TestC03NAPT$", 10000, 16 * 200000, overlay="full"),
    rapid_unit("one-to-one", "vnat", "^TestC03OneToOne$", 5000, 16 * 50000, overlay="full"),
    rapid_unit("expiry-e2e", "vnete2e", "^TestC03ExpiryE2E$", 200, 16 * 600, overlay="plain", shrinktime="5s"),
    rapid_unit("port-space", "vnat", "^TestC03PortSpace$", 16, 16 * 20, overlay="full"),
]}

PROPS["C15"] = {"units": [
    plain_unit("regress", "vfilter", "^TestRegressC15", overlay="full"),
    rapid_unit("virtual-clock", "vfilter", "^TestC15TokenBucket$", 600, 16 * 5000, overlay="full"),
]}

PROPS["C14"] = {"units": [
    plain_unit("regress", "vfilter", "^TestRegressC14", overlay="full"),
    rapid_unit("delay-filter-free", "vfilter", "^TestC14DelayFilter$", 400, 16 * 3000, overlay="full", crash_is_violation=True),
    rapid_unit("router-delay-e2e", "vnete2e", "^TestC14RouterDelay$", 120, 16 * 800, overlay="plain", shrinktime="3s", crash_is_violation=True),
    rapid_unit("nested-router-delay", "vnete2e", "^TestC14NestedDelay$", 60, 16 * 500, overlay="plain", shrinktime="3s", crash_is_violation=True),
    rapid_unit("delay-filter-schedules", "vfilter", "^TestC14DelaySchedules$", 300, 16 * 2500, overlay="full"),
]}

PROPS["C13"] = {"units": [
    plain_unit("regress", "vnete2e", "^TestRegressC13", overlay="plain"),
    rapid_unit("router-addresses", "vnete2e", "^TestC13RouterAddresses$", 1500, 16 * 20000, overlay="plain"),
    rapid_unit("host-binds", "vnete2e", "^TestC13HostBinds$", 8000, 16 * 40000, overlay="plain"),
]}

PROPS["C17"] = {"units": [
    plain_unit("regress", "ctxio", "^TestRegressC17", overlay="full"),
    rapid_unit("schedules", "ctxio", "^TestC17Schedules$", 1200, 16 * 10000, overlay="full"),
    rapid_unit("free-running", "ctxio", "^TestC17FreeRunning$", 400, 16 * 3000, overlay="full"),
]}

PROPS["C12"] = {"units": [
    plain_unit("regress", "udpl", "^TestRegressC12", overlay="full"),
    rapid_unit("schedules", "udpl", "^TestC12Schedules$", 500, 16 * 3000, overlay="full", crash_is_violation=True),
]}

PROPS["C11"] = {"units": [
    plain_unit("regress", "udpl", "^TestRegressC11", overlay="full"),
    rapid_unit("sequential", "udpl", "^TestC11Sequential$", 600, 16 * 6000, overlay="full"),
    rapid_unit("concurrent", "udpl", "^TestC11Concurrent$", 150, 16 * 1500, overlay="full"),
    rapid_unit("schedules", "udpl", "^TestC11Schedules$", 250, 16 * 2500, overlay="full", shrinktime="5s", crash_is_violation=True),
]}

PROPS["C10"] = {"units": [
    plain_unit("regress", "rdl", "^TestRegressC10", overlay="plain", env={"GODEBUG": "asynctimerchan=1"}),
    plain_unit("regress-async0", "rdl", "^TestRegressC10", overlay="plain", env={"GODEBUG": "asynctimerchan=0"}),
    rapid_unit("deadlines-async1", "rdl", "^TestC10Deadlines$", 150, 16 * 400, overlay="plain", env={"GODEBUG": "asynctimerchan=1"}),
    rapid_unit("deadlines-async0", "rdl", "^TestC10Deadlines$", 150, 16 * 400, overlay="plain", env={"GODEBUG": "asynctimerchan=0"}),
    rapid_unit("virtual-deadlines", "rdlv", "^TestC10VirtualDeadlines$", 1500, 16 * 15000, overlay="full", shrinktime="5s"),
]}

PROPS["C19"] = {"units": [
    plain_unit("regress", "race", "^TestRegressC19", race=True),
    rapid_unit("programs", "race", "^TestC19Programs$", 700, 16 * 6000, race=True,
               replay_run="^TestC19Replay$", shrinktime="1s"),
    rapid_unit("filters-direct", "vfilter", "^TestC19FiltersDirect$", 200, 16 * 1500, overlay="full", race=True, shrinktime="1s"),
]}

PROPS["C01"] = {"units": [
    plain_unit("regress", "vnete2e", "^TestRegressC01", overlay="plain"),
    rapid_unit("delivery", "vnete2e", "^TestC01Delivery$", 1000, 16 * 5000, overlay="plain", crash_is_violation=True),
    rapid_unit("schedules", "vnete2e", "^TestC01Schedules$", 150, 16 * 1200, overlay="full", tags=["verifsched"], crash_is_violation=True),
    rapid_unit("bare-schedules", "vnete2e", "^TestC01BareSchedules$", 300, 16 * 2000, overlay="full", tags=["verifsched"], crash_is_violation=True),
    rapid_unit("nat-port-pressure", "vnete2e", "^TestC01PortPressure$", 3, 16 * 8, overlay="plain", shrinktime="1s", crash_is_violation=True),
    rapid_unit("bounded-queue", "vnete2e", "^TestC01QueueCapacity$", 25, 16 * 300, overlay="plain", shrinktime="3s", crash_is_violation=True),
]}
