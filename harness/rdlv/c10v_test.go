// Package rdlv holds the virtual-clock half of C10: the read deadline of
// packetio.Buffer, a dpipe end and a Bridge endpoint, with deadline/deadline.go
// yield-instrumented and its timers replaced by a virtual clock, so that "the
// timer has fallen due, its callback has not run yet, and the deadline is being
// changed" is a schedulable state instead of a microsecond window.
package rdlv

import (
	"context"
	"errors"
	"fmt"
	"math"
	"net"
	"os"
	"strings"
	"sync"
	"testing"
	"time"

	"github.com/pion/transport/v3/deadline"
	"github.com/pion/transport/v3/dpipe"
	"github.com/pion/transport/v3/packetio"
	ttest "github.com/pion/transport/v3/test"
	"pgregory.net/rapid"

	"verifharness/ev"
	"verifharness/sched"
	"verifharness/vclock"
)

const unit = 10 * time.Millisecond // virtual; small enough that a timer armed some milliseconds early shows

var vbase = time.Date(2034, 4, 4, 0, 0, 0, 0, time.UTC)

type adapter struct {
	name   string
	read   func([]byte) (int, error)
	setRD  func(time.Time) error
	inject func([]byte) error
	close  func()
	// pump, if set, starts whatever moves injected data towards the reader after
	// the session (the Bridge hands a message over only to a reader that is
	// waiting at the moment of a Tick) and returns its stop function
	pump func() func()
}

func newAdapter(kind int) *adapter {
	switch kind {
	case 1:
		x, y := dpipe.Pipe()
		return &adapter{"dpipe", x.Read, x.SetReadDeadline, func(p []byte) error { _, err := y.Write(p); return err }, func() { _ = x.Close(); _ = y.Close() }, nil}
	case 2:
		br := ttest.NewBridge()
		c0, c1 := br.GetConn0(), br.GetConn1()
		return &adapter{"test.Bridge", c0.Read, c0.SetReadDeadline,
			func(p []byte) error { _, err := c1.Write(p); br.Tick(); return err },
			func() { _ = c0.Close(); _ = c1.Close(); br.Tick(); br.Tick() },
			func() func() {
				stop, done := make(chan struct{}), make(chan struct{})
				go func() {
					defer close(done)
					for {
						select {
						case <-stop:
							return
						default:
						}
						br.Tick()
						time.Sleep(50 * time.Microsecond)
					}
				}()
				return func() { close(stop); <-done }
			}}
	}
	b := packetio.NewBuffer()
	return &adapter{"packetio.Buffer", b.Read, b.SetReadDeadline, func(p []byte) error { _, err := b.Write(p); return err }, func() { _ = b.Close() }, nil}
}

func isTimeout(err error) bool {
	var ne net.Error
	if errors.As(err, &ne) && ne.Timeout() {
		return true
	}
	return errors.Is(err, context.DeadlineExceeded) || errors.Is(err, os.ErrDeadlineExceeded)
}

type dlOp struct {
	Kind       string // zero, past, future
	D          int
	AfterTimer bool // issued only once a timer has fallen due since the previous call
}

func (o dlOp) String() string {
	s := o.Kind
	if o.Kind == "future" {
		s = fmt.Sprintf("+%d", o.D)
	}
	if o.AfterTimer {
		s += "@expiry"
	}
	return s
}

type setRec struct {
	start, end int
	at         time.Time
}

type readRec struct {
	start, end int
	n          int
	err        error
	retAt      time.Time // virtual time sampled after the read returned
	data       string
}

// readWithin runs one read on a goroutine of its own.
func readWithin(a *adapter, buf []byte, d time.Duration) (int, error, bool) {
	type res struct {
		n   int
		err error
	}
	ch := make(chan res, 1)
	go func() {
		n, err := a.read(buf)
		ch <- res{n, err}
	}()
	select {
	case r := <-ch:
		return r.n, r.err, true
	case <-time.After(d):
		return 0, nil, false
	}
}

const ruleC10V = "rapid-drawn program on packetio.Buffer, a dpipe end or a Bridge endpoint with deadline/deadline.go yield-instrumented and on a virtual clock: a reader task (1..3 reads), a deadliner task (1..4 SetReadDeadline: zero | past | now+1,2,5 units | the year 9999, Unix(2^40), now + the largest Duration; a drawn subset issued only after a timer has fallen due since the previous call), an injector task (0..2 messages from the peer) and a clock task whose advances turn every due timer into a callback task; rapid-drawn schedule over every lock/channel operation of deadline.go; oracle: a read fails with a timeout only if some non-zero deadline that may have been in force during the call had passed when it returned; at quiescence no read is parked while the last deadline set is non-zero and has passed (all due callbacks have run); a read that was parked, with no message for it, when the last callback of a passed deadline completed must end in a timeout whatever is set afterwards; then, outside the session: a deadline one unit ahead is armed and made to pass - every parked read must be released and two further reads must time out although a message is waiting (expiry persists) - and after SetReadDeadline(zero) the next read returns that message; non-trivial = a deadline was changed while a timer callback was dispatched and not finished; distinct by hash of program + step trace"

func TestC10VirtualDeadlines(t *testing.T) {
	r := ev.New("C10", "virtual-deadlines", ruleC10V)
	r.Essential = []string{"adapter/packetio.Buffer", "adapter/dpipe", "adapter/test.Bridge", "set-while-callback-dispatched", "timeout-in-session"}
	r.MinForEssential = 300
	r.Assume("yield granularity = the synchronisation operations of deadline/deadline.go; the adapters themselves run un-instrumented between those points; goroutine wait states as reported by runtime.Stack")
	r.Check(t, func(t *rapid.T, c *ev.Case) {
		kind := rapid.IntRange(0, 2).Draw(t, "adapter")
		nReads := rapid.IntRange(1, 3).Draw(t, "reads")
		var ops []dlOp
		if rapid.Bool().Draw(t, "rearm") {
			a := rapid.SampledFrom([]int{1, 2}).Draw(t, "a")
			ops = []dlOp{{Kind: "future", D: a}, {Kind: rapid.SampledFrom([]string{"zero", "past", "future"}).Draw(t, "mid"), D: 2, AfterTimer: rapid.Bool().Draw(t, "midAfter")},
				{Kind: "future", D: rapid.SampledFrom([]int{1, 2}).Draw(t, "b")}}
		} else {
			for i, n := 0, rapid.IntRange(1, 4).Draw(t, "nops"); i < n; i++ {
				o := dlOp{}
				switch rapid.IntRange(0, 6).Draw(t, "op") {
				case 0:
					o.Kind = "past"
				case 1, 2:
					o.Kind = "zero"
				case 3:
					o.Kind, o.D = "farthest", rapid.IntRange(0, 2).Draw(t, "which")
					c.Label("farthest-deadline")
				default:
					o.Kind, o.D = "future", rapid.SampledFrom([]int{1, 2, 5}).Draw(t, "d")
				}
				o.AfterTimer = i > 0 && rapid.IntRange(0, 2).Draw(t, "after") == 0
				ops = append(ops, o)
			}
		}
		ticks := rapid.SliceOfN(rapid.IntRange(0, 5), 1, 6).Draw(t, "ticks")
		nInject := rapid.IntRange(0, 2).Draw(t, "injects")
		rc := sched.NewRapidChooser(t)
		a := newAdapter(kind)
		c.Label("adapter/" + a.name)
		c.Label("strategy/" + sched.StrategyNames[rc.Strategy])
		c.Op("%s reads=%d ops=%v ticks=%v injects=%d", a.name, nReads, ops, ticks, nInject)
		t.Logf("%s reads=%d ops=%v ticks=%v injects=%d strategy=%s", a.name, nReads, ops, ticks, nInject, sched.StrategyNames[rc.Strategy])

		clock := vclock.New(vbase)
		s := sched.New()
		deadline.VerifSetHooks(&deadline.VerifHooks{
			Yield: s.Yield, Spawn: s.Spawn, Adopt: s.Adopt, Retire: s.Retire,
			Now:       clock.Now,
			AfterFunc: func(d time.Duration, f func()) deadline.VerifTimer { return clock.AfterFunc(d, f) },
		})
		var closeOnce sync.Once
		defer func() {
			s.Abort()
			done := make(chan struct{})
			go func() { closeOnce.Do(a.close); close(done) }()
			select {
			case <-done:
			case <-time.After(time.Second):
			}
			s.Drain(2 * time.Second)
			deadline.VerifSetHooks(nil)
		}()

		var mu sync.Mutex
		seq := 0
		tick := func() int { seq++; return seq }
		sets := []setRec{{0, 0, time.Time{}}} // the initial state: no deadline
		var reads []readRec
		cbSpawned, clockDone := 0, false
		injected := 0

		setBusy, injectBusy, readsStarted := false, false, 0
		doSet := func(to time.Time) {
			mu.Lock()
			st := tick()
			setBusy = true
			mu.Unlock()
			_ = a.setRD(to)
			mu.Lock()
			sets = append(sets, setRec{st, tick(), to})
			setBusy = false
			mu.Unlock()
		}
		doRead := func() {
			buf := make([]byte, 64)
			mu.Lock()
			st := tick()
			readsStarted++
			mu.Unlock()
			n, err := a.read(buf)
			now := clock.Now()
			mu.Lock()
			reads = append(reads, readRec{st, tick(), n, err, now, string(buf[:max(n, 0)])})
			mu.Unlock()
		}
		s.Go("reader", func() {
			for i := 0; i < nReads; i++ {
				doRead()
			}
		})
		s.Go("deadliner", func() {
			seen := 0
			for _, op := range ops {
				for op.AfterTimer {
					mu.Lock()
					ok := cbSpawned > seen || clockDone
					mu.Unlock()
					if ok {
						break
					}
					s.Yield("deadliner:await-timer")
				}
				mu.Lock()
				seen = cbSpawned
				mu.Unlock()
				var to time.Time
				switch op.Kind {
				case "past":
					to = clock.Now().Add(-unit)
				case "future":
					to = clock.Now().Add(time.Duration(op.D) * unit)
				case "farthest":
					to = []time.Time{time.Date(9999, 12, 31, 23, 59, 59, 0, time.UTC), time.Unix(1<<40, 0), clock.Now().Add(time.Duration(math.MaxInt64))}[op.D%3]
				}
				doSet(to)
			}
		})
		if nInject > 0 {
			s.Go("injector", func() {
				for i := 0; i < nInject; i++ {
					s.Yield("injector:before")
					mu.Lock()
					injectBusy = true
					mu.Unlock()
					err := a.inject([]byte(fmt.Sprintf("msg-%d", i)))
					mu.Lock()
					if err == nil {
						injected++
					}
					injectBusy = false
					mu.Unlock()
				}
			})
		}
		nCb := 0
		s.Go("clockd", func() {
			for _, dt := range ticks {
				clock.Advance(time.Duration(dt) * unit)
				for clock.Pending() > 0 {
					cb := clock.Take(0)
					nCb++
					s.Go(fmt.Sprintf("cb%d", nCb), cb.Run)
					mu.Lock()
					cbSpawned++
					mu.Unlock()
				}
				s.Yield("clockd:tick")
			}
			mu.Lock()
			clockDone = true
			mu.Unlock()
		})
		// "A blocked read is released with a timeout error once its deadline passes": a Read that
		// is parked, with no message for it, at the moment the last callback of a passed deadline
		// completes has been woken by that deadline - it owes a timeout, whatever is set next.
		owes := map[int]string{} // index of the read call -> why
		wasParked, lastPicked := -1, ""
		var readerTask *sched.Task
		observe := func(ss *sched.Session, en []*sched.Task) {
			if readerTask == nil {
				for _, tk := range ss.Tasks() {
					if tk.Name == "reader" {
						readerTask = tk
					}
				}
			}
			mu.Lock()
			defer mu.Unlock()
			cbLeft := clock.Pending()
			for _, tk := range ss.Tasks() {
				if strings.HasPrefix(tk.Name, "cb") && tk.State() != sched.Finished {
					cbLeft++
				}
			}
			data := 0
			for _, rd := range reads {
				if rd.err == nil && rd.n > 0 {
					data++
				}
			}
			quietDeadline := !setBusy && !injectBusy && injected == data
			last := sets[len(sets)-1].at
			if strings.HasPrefix(lastPicked, "cb") && cbLeft == 0 && wasParked >= 0 && wasParked == readsStarted-1 && len(reads) == wasParked &&
				quietDeadline && !last.IsZero() && !last.After(clock.Now()) {
				owes[wasParked] = fmt.Sprintf("it was parked, with no message for it, when the last callback of the deadline %v completed at virtual time %v", last.Sub(vbase), clock.Offset())
			}
			wasParked = -1
			if readerTask != nil && readerTask.State() == sched.Blocked && quietDeadline && readsStarted == len(reads)+1 {
				wasParked = readsStarted - 1
			}
		}
		var trace []string
		s.Run(chooserF(func(ss *sched.Session, en []*sched.Task) *sched.Task {
			observe(ss, en)
			p := rc.Pick(ss, en)
			lastPicked = ""
			if p != nil {
				lastPicked = p.Name
				trace = append(trace, p.Name+"@"+p.Label())
				if p.Name == "deadliner" {
					for _, e := range en {
						if len(e.Name) > 2 && e.Name[:2] == "cb" {
							c.Label("set-while-callback-dispatched")
							c.NonTrivial()
						}
					}
				}
			}
			return p
		}))
		for _, x := range trace {
			c.Op("%s", x)
		}
		if s.Discarded {
			c.Label("discarded/step-limit")
			return
		}
		for _, tk := range s.Tasks() {
			if p := tk.Panicked(); p != nil {
				t.Fatalf("C10: task %s panicked: %v\n%s", tk.Name, p, s.Describe())
			}
		}
		// --- in-session oracle
		checkReads := func() {
			mu.Lock()
			defer mu.Unlock()
			for _, rd := range reads {
				if !isTimeout(rd.err) {
					if rd.err != nil {
						t.Fatalf("C10: %s: Read returned the unexpected error %v", a.name, rd.err)
					}
					continue
				}
				c.Label("timeout-in-session")
				legal := false
				var cand []string
				for i, st := range sets {
					if st.start >= rd.end {
						continue // issued after the read had returned
					}
					if i+1 < len(sets) && sets[i+1].end < rd.start {
						continue // replaced before the read started
					}
					if st.at.IsZero() {
						cand = append(cand, "none")
					} else {
						cand = append(cand, fmt.Sprint(st.at.Sub(vbase)))
					}
					if !st.at.IsZero() && !st.at.After(rd.retAt) {
						legal = true
					}
				}
				if !legal {
					t.Fatalf("C10: %s: a Read failed with a timeout at virtual time %v although no non-zero deadline that can have been in force during the call had passed (candidates: %v)\n%s",
						a.name, rd.retAt.Sub(vbase), cand, s.Describe())
				}
			}
		}
		checkReads()
		observe(s, nil)
		mu.Lock()
		for k, why := range owes {
			c.Label("read-woken-by-its-deadline")
			if k < len(reads) && isTimeout(reads[k].err) {
				continue
			}
			got := "is still blocked"
			if k < len(reads) {
				got = fmt.Sprintf("returned n=%d err=%v", reads[k].n, reads[k].err)
			}
			mu.Unlock()
			t.Fatalf("C10: %s: Read %d %s, but %s: a blocked read is released with a timeout error once its deadline passes\n%s", a.name, k, got, why, s.Describe())
		}
		last := sets[len(sets)-1].at
		mu.Unlock()
		passed := !last.IsZero() && !last.After(clock.Now())
		for _, tk := range s.BlockedTasks() {
			if tk.Name != "reader" {
				st, fr := tk.WaitInfo()
				t.Fatalf("C10: %s: task %s is blocked in [%s] at %s; only Read may wait\n%s", a.name, tk.Name, st, fr, s.Describe())
			}
			if passed {
				t.Fatalf("C10: %s: a Read stays blocked although the read deadline %v has passed (virtual clock %v, every due timer callback has run)\n%s",
					a.name, last.Sub(vbase), clock.Offset(), s.Describe())
			}
		}
		if passed {
			c.Label("passed-at-quiescence")
		}
		// --- settle, outside the session
		s.Abort()
		if a.pump != nil {
			stop := a.pump()
			defer stop()
		}
		if !passed {
			doSet(clock.Now().Add(unit))
		}
		clock.Advance(100 * unit)
		for clock.Pending() > 0 {
			clock.Take(0).Run()
		}
		if left := s.Drain(2 * time.Second); left > 0 {
			t.Fatalf("C10: %s: %d task(s) still blocked 2 s after the read deadline has passed (virtual clock %v, every timer callback has run)\n%s", a.name, left, clock.Offset(), s.Describe())
		}
		checkReads()
		// expiry persists, also with a message waiting
		_ = a.inject([]byte("after-expiry"))
		for i := 0; i < 2; i++ {
			_, err, returned := readWithin(a, make([]byte, 64), 2*time.Second)
			if !returned {
				t.Fatalf("C10: %s: a Read started after the read deadline had passed (every timer callback has run) is still blocked after 2 s", a.name)
			}
			if !isTimeout(err) {
				t.Fatalf("C10: %s: Read %d after the deadline had passed returned err=%v, want a timeout until the deadline is set again", a.name, i+1, err)
			}
		}
		// a zero deadline makes reads return data again
		doSet(time.Time{})
		mu.Lock()
		consumed := 0
		for _, rd := range reads {
			if rd.err == nil {
				consumed++
			}
		}
		waiting := injected - consumed
		mu.Unlock()
		for i := 0; i <= waiting; i++ {
			n, err, returned := readWithin(a, make([]byte, 64), 2*time.Second)
			if !returned || err != nil || n == 0 {
				t.Fatalf("C10: %s: after SetReadDeadline(zero) a Read with %d message(s) waiting returned=%v n=%d err=%v", a.name, waiting+1-i, returned, n, err)
			}
		}
		c.Count("schedules", 1)
	})
}

type chooserF func(s *sched.Session, en []*sched.Task) *sched.Task

func (f chooserF) Pick(s *sched.Session, en []*sched.Task) *sched.Task { return f(s, en) }
