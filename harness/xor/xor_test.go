// Package xor holds the check for C20: XorBytes against a byte-wise
// reference for all lengths, offsets and aliasing patterns, on the
// implementation the toolchain selects and on xor_old.go (compiled with its
// build constraint removed).
package xor

import (
	"fmt"
	"os"
	"testing"

	"github.com/pion/transport/v3/utils/xor"
	"pgregory.net/rapid"

	"verifharness/ev"
	"verifharness/xorold"
)

type impl struct {
	name   string
	f      func(dst, a, b []byte) int
	direct bool // takes n explicitly (fast/safe helpers): needs n >= 1
}

func impls() []impl {
	l := []impl{{"selected", xor.XorBytes, false}}
	if xorold.Available {
		l = append(l,
			impl{"xor_old.XorBytes", xorold.XorBytes, false},
			impl{"xor_old.fastXORBytes", func(d, a, b []byte) int {
				n := min(len(a), len(b))
				xorold.VerifFast(d, a, b, n)
				return n
			}, true},
			impl{"xor_old.safeXORBytes", func(d, a, b []byte) int {
				n := min(len(a), len(b))
				xorold.VerifSafe(d, a, b, n)
				return n
			}, true},
		)
	}
	return l
}

const (
	aliasNone = iota
	aliasDstA
	aliasDstB
	aliasArena // and aliasArena+1, +2: one allocation (see oneArena)
)

const guard = 24

func fill(p []byte, seed uint64) {
	x := seed*0x9E3779B97F4A7C15 + 0xD1B54A32D192ED03
	for i := range p {
		x ^= x << 13
		x ^= x >> 7
		x ^= x << 17
		p[i] = byte(x >> 24)
	}
}

// fillClass fills p with contents of a class: 0..2 pseudo-random, 3 all zero,
// 4 all 0xFF, 5 pseudo-random with runs of 16..80 zero bytes (whole zero words at
// every alignment), 6 a three-letter alphabet {0x00, 0x01, 0x80}, 7 runs of 0xFF
// in zeroes. Structured contents matter for implementations that look at the
// data (skipping zero words, early outs).
func fillClass(p []byte, seed uint64, class uint64) {
	fill(p, seed)
	x := seed*0xD6E8FEB86659FD93 + 1
	next := func() uint64 {
		x ^= x << 13
		x ^= x >> 7
		x ^= x << 17
		return x
	}
	switch class {
	case 3:
		for i := range p {
			p[i] = 0
		}
	case 4:
		for i := range p {
			p[i] = 0xFF
		}
	case 5, 7:
		if class == 7 {
			for i := range p {
				p[i] = 0
			}
		}
		for i := 0; i < len(p); {
			i += int(next() % 40)
			run := 16 + int(next()%65)
			for k := 0; k < run && i < len(p); k, i = k+1, i+1 {
				if class == 5 {
					p[i] = 0
				} else {
					p[i] = 0xFF
				}
			}
		}
	case 6:
		for i := range p {
			p[i] = [...]byte{0, 0, 1, 0x80}[p[i]&3]
		}
	}
}

// oneArena: the three slices are disjoint parts of ONE allocation (in a drawn
// order, separated by guard bytes), or dst is exactly a / exactly b with the
// third slice in the same allocation. Sharing a backing array is not aliasing:
// the result must be what it is for separate allocations.
func oneArena(im impl, la, lb, offD, offA, offB, alias, extraDst int, seed uint64) string {
	n := min(la, lb)
	if im.direct && n == 0 {
		return ""
	}
	ld := n + extraDst
	mode := alias - aliasArena // 0: three disjoint parts; 1: dst is a, b elsewhere in the arena; 2: dst is b, a elsewhere
	type part struct{ off, length int }
	var pa, pb, pd part
	order := int(seed>>40) % 6
	sizes := map[byte]int{'a': offA + la, 'b': offB + lb, 'd': offD + ld}
	seq := [6]string{"abd", "adb", "bad", "bda", "dab", "dba"}[order]
	pos := guard
	for _, k := range []byte(seq) {
		if k == 'd' && mode != 0 {
			continue
		}
		switch k {
		case 'a':
			pa = part{pos + offA, la}
		case 'b':
			pb = part{pos + offB, lb}
		case 'd':
			pd = part{pos + offD, ld}
		}
		pos += sizes[k] + guard
	}
	arena := make([]byte, pos+guard)
	fillClass(arena, seed, seed>>61&7)
	a := arena[pa.off : pa.off+pa.length] // two-index slices: the capacity runs to the end of the allocation
	b := arena[pb.off : pb.off+pb.length]
	var dst []byte
	dstOff := 0
	switch mode {
	case 1:
		dst, dstOff = a, pa.off
	case 2:
		dst, dstOff = b, pb.off
	default:
		dst, dstOff = arena[pd.off:pd.off+pd.length], pd.off
	}
	before := append([]byte(nil), arena...)
	var got int
	var pan any
	func() {
		defer func() { pan = recover() }()
		got = im.f(dst, a, b)
	}()
	desc := fmt.Sprintf("impl=%s len(a)=%d len(b)=%d len(dst)=%d, one allocation of %d bytes: a at %d, b at %d, dst at %d (mode %d) seed=%d",
		im.name, la, lb, len(dst), len(arena), pa.off, pb.off, dstOff, mode, seed)
	if pan != nil {
		return fmt.Sprintf("panic %v (%s)", pan, desc)
	}
	if got != n {
		return fmt.Sprintf("returned %d, want min(len(a),len(b))=%d (%s)", got, n, desc)
	}
	for i := range arena {
		want := before[i]
		if i >= dstOff && i < dstOff+n {
			want = before[pa.off+i-dstOff] ^ before[pb.off+i-dstOff]
		}
		if arena[i] != want {
			what := "a byte outside the result was modified"
			if i >= dstOff && i < dstOff+n {
				what = "wrong result byte"
			}
			return fmt.Sprintf("%s: arena[%d] (dst index %d) = %#x, want %#x (%s)", what, i, i-dstOff, arena[i], want, desc)
		}
	}
	return ""
}

// one runs one case; returns "" or a failure description.
func one(im impl, la, lb, offD, offA, offB, alias, extraDst int, seed uint64) string {
	n := min(la, lb)
	if im.direct && n == 0 {
		return ""
	}
	if alias >= aliasArena {
		return oneArena(im, la, lb, offD, offA, offB, alias, extraDst, seed)
	}
	// backing arrays with guard bytes on both sides
	bufA := make([]byte, guard+offA+la+guard)
	bufB := make([]byte, guard+offB+lb+guard)
	fillClass(bufA, seed, seed>>61&7)
	fillClass(bufB, seed+1, seed>>58&7)
	a := bufA[guard+offA : guard+offA+la]
	b := bufB[guard+offB : guard+offB+lb]
	var bufD, dst []byte
	switch alias {
	case aliasDstA:
		bufD, dst = bufA, a
	case aliasDstB:
		bufD, dst = bufB, b
	default:
		bufD = make([]byte, guard+offD+n+extraDst+guard)
		fillClass(bufD, seed+2, seed>>55&7)
		dst = bufD[guard+offD : guard+offD+n+extraDst]
	}
	a0 := append([]byte(nil), bufA...)
	b0 := append([]byte(nil), bufB...)
	d0 := append([]byte(nil), bufD...)
	var got int
	var pan any
	func() {
		defer func() { pan = recover() }()
		got = im.f(dst, a, b)
	}()
	desc := func() string {
		return fmt.Sprintf("impl=%s len(a)=%d len(b)=%d len(dst)=%d offsets dst/a/b=%d/%d/%d alias=%s seed=%d",
			im.name, la, lb, len(dst), offD, offA, offB, [...]string{"none", "dst==a", "dst==b"}[alias], seed)
	}
	if pan != nil {
		return fmt.Sprintf("panic %v (%s)", pan, desc())
	}
	if got != n {
		return fmt.Sprintf("returned %d, want min(len(a),len(b))=%d (%s)", got, n, desc())
	}
	av := a0[guard+offA:]
	bv := b0[guard+offB:]
	// expected contents of the three backing arrays
	check := func(name string, buf, before []byte, start int, isDst bool) string {
		for i := range buf {
			want := before[i]
			if isDst && i >= start && i < start+n {
				want = av[i-start] ^ bv[i-start]
			}
			if buf[i] != want {
				what := "a byte outside the result was modified"
				if isDst && i >= start && i < start+n {
					what = "wrong result byte"
				}
				return fmt.Sprintf("%s: %s[%d] (slice index %d) = %#x, want %#x (%s)", what, name, i, i-start, buf[i], want, desc())
			}
		}
		return ""
	}
	switch alias {
	case aliasDstA:
		if s := check("a(=dst)", bufA, a0, guard+offA, true); s != "" {
			return s
		}
		return check("b", bufB, b0, 0, false)
	case aliasDstB:
		if s := check("b(=dst)", bufB, b0, guard+offB, true); s != "" {
			return s
		}
		return check("a", bufA, a0, 0, false)
	}
	if s := check("dst", bufD, d0, guard+offD, true); s != "" {
		return s
	}
	if s := check("a", bufA, a0, 0, false); s != "" {
		return s
	}
	return check("b", bufB, b0, 0, false)
}

const ruleSweep = "exhaustive enumeration: len(a), len(b) in 0..N (N=24 quick, 40 thorough) x start offsets 0..7 of dst, a, b inside guarded backing arrays x aliasing {none (len(dst) = n, n+1, n+17), dst==a, dst==b} x implementations {toolchain-selected XorBytes, xor_old.go XorBytes/fastXORBytes/safeXORBytes compiled with the build constraint removed}; oracle: return value == min(len), dst[i]==a0[i]^b0[i], every other byte of the three backing arrays unchanged; non-trivial = lengths differ, or an offset is not word aligned, or aliasing; all cases distinct by construction"

func TestC20Sweep(t *testing.T) {
	r := ev.New("C20", "sweep", ruleSweep)
	defer r.Flush(t)
	r.Assume("xor_arm.go / xor_arm.s (ARM NEON assembly) cannot be built or executed on this amd64 sandbox and is not covered")
	N := 24
	if os.Getenv("VERIF_TIER") == "thorough" {
		N = 40
	}
	ims := impls()
	if !xorold.Available {
		r.Assume("utils/xor/xor_old.go is absent from the working tree; only the selected implementation was tested")
	}
	total, nontriv := 0, 0
	labels := map[string]int{}
	var samples []map[string]any
	for _, im := range ims {
		for la := 0; la <= N; la++ {
			for lb := 0; lb <= N; lb++ {
				seed := uint64(la*131 + lb)
				run := func(offD, offA, offB, alias, extra int) {
					if im.direct && min(la, lb) == 0 {
						return
					}
					if s := one(im, la, lb, offD, offA, offB, alias, extra, seed); s != "" {
						t.Fatalf("C20: %s", s)
					}
					total++
					if la != lb || offD%8 != 0 || offA%8 != 0 || offB%8 != 0 || alias != aliasNone {
						nontriv++
					}
					labels["impl/"+im.name]++
					labels["alias/"+[...]string{"none", "dst==a", "dst==b"}[alias]]++
					if total%400007 == 1 {
						samples = append(samples, map[string]any{"impl": im.name, "len_a": la, "len_b": lb, "off_dst": offD, "off_a": offA, "off_b": offB, "alias": alias, "extra_dst": extra})
					}
				}
				for offA := 0; offA < 8; offA++ {
					for offB := 0; offB < 8; offB++ {
						for offD := 0; offD < 8; offD++ {
							for _, extra := range []int{0, 1, 17} {
								run(offD, offA, offB, aliasNone, extra)
							}
						}
						run(offA, offA, offB, aliasDstA, 0)
						run(offB, offA, offB, aliasDstB, 0)
					}
				}
			}
		}
	}
	r.AddBulk(total, nontriv, labels, samples...)
	t.Logf("swept %d cases (N=%d, %d implementations)", total, N, len(ims))
}

const ruleRapid = "rapid-drawn cases: lengths 0..5000 (biased to multiples of 8 +-1 and to 0..64) and k*65536 +-1 for k = 1..3, offsets 0..15, contents by seed (per buffer one of: pseudo-random, all zero, all 0xFF, random with runs of zero bytes, a three-letter alphabet, runs of 0xFF in zeroes), aliasing {none, dst==a, dst==b, and the same three with all slices cut from one allocation}, len(dst) in {n, n+1, n+17, n+random}; same oracle and implementations; non-trivial as in the sweep; distinct by hash of the parameters"

func TestC20Rapid(t *testing.T) {
	r := ev.New("C20", "rapid", ruleRapid)
	r.Assume("xor_arm.go / xor_arm.s (ARM NEON assembly) cannot be built or executed on this amd64 sandbox and is not covered")
	ims := impls()
	genLen := rapid.OneOf(
		rapid.IntRange(0, 64),
		rapid.Custom(func(t *rapid.T) int {
			return max(0, 8*rapid.IntRange(0, 600).Draw(t, "w")+rapid.IntRange(-1, 1).Draw(t, "d"))
		}),
		rapid.IntRange(0, 5000),
		// around multiples of 64 KiB (chunked loops, 16-bit counters)
		rapid.Custom(func(t *rapid.T) int {
			return 65536*rapid.IntRange(1, 3).Draw(t, "k64") + rapid.IntRange(-1, 1).Draw(t, "d64")
		}),
	)
	r.Check(t, func(t *rapid.T, c *ev.Case) {
		im := ims[rapid.IntRange(0, len(ims)-1).Draw(t, "impl")]
		la := genLen.Draw(t, "la")
		lb := genLen.Draw(t, "lb")
		if rapid.IntRange(0, 3).Draw(t, "same") == 0 {
			lb = la
		}
		offD := rapid.IntRange(0, 15).Draw(t, "offD")
		offA := rapid.IntRange(0, 15).Draw(t, "offA")
		offB := rapid.IntRange(0, 15).Draw(t, "offB")
		alias := rapid.IntRange(0, 5).Draw(t, "alias") // 3..5: the slices share one allocation
		extra := rapid.SampledFrom([]int{0, 0, 1, 17, 100}).Draw(t, "extra")
		seed := rapid.Uint64().Draw(t, "seed")
		c.Op("%s la=%d lb=%d off=%d/%d/%d alias=%d extra=%d seed=%d", im.name, la, lb, offD, offA, offB, alias, extra, seed)
		c.Label("impl/" + im.name)
		c.Labelf("alias/%d", alias)
		if la != lb || offD%8 != 0 || offA%8 != 0 || offB%8 != 0 || alias != aliasNone {
			c.NonTrivial()
		}
		if alias == aliasDstA {
			offD = offA
		} else if alias == aliasDstB {
			offD = offB
		}
		if alias > aliasArena {
			extra = 0
		}
		if s := one(im, la, lb, offD, offA, offB, alias, extra, seed); s != "" {
			t.Fatalf("C20: %s", s)
		}
	})
}

// FuzzC20 is the native fuzz target (thorough tier).
func FuzzC20(f *testing.F) {
	f.Add(uint16(0), uint16(0), uint8(0), uint8(0), uint8(0), uint8(0), uint64(1))
	f.Add(uint16(7), uint16(9), uint8(1), uint8(2), uint8(3), uint8(1), uint64(2))
	f.Add(uint16(4096), uint16(4095), uint8(7), uint8(0), uint8(5), uint8(2), uint64(3))
	f.Add(uint16(65535), uint16(65535), uint8(3), uint8(3), uint8(3), uint8(0), uint64(4))
	ims := impls()
	f.Fuzz(func(t *testing.T, la, lb uint16, offD, offA, offB, mode uint8, seed uint64) {
		alias := int(mode % 3)
		im := ims[int(mode/3)%len(ims)]
		extra := []int{0, 1, 17}[int(mode/16)%3]
		oD, oA, oB := int(offD%16), int(offA%16), int(offB%16)
		if alias == aliasDstA {
			oD = oA
		} else if alias == aliasDstB {
			oD = oB
		}
		if s := one(im, int(la)%9000, int(lb)%9000, oD, oA, oB, alias, extra, seed); s != "" {
			t.Fatalf("C20: %s", s)
		}
	})
}
