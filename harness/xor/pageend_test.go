package xor

import (
	"fmt"
	"runtime/debug"
	"syscall"
	"testing"

	"pgregory.net/rapid"

	"verifharness/ev"
)

// pageEnd returns a slice of n bytes (cap n) whose last byte is the last byte of a mapped,
// writable page; the page behind it is mapped without any access rights. Touching a single
// byte past the slice faults.
func pageEnd(t interface{ Fatalf(string, ...any) }, n int) ([]byte, func()) {
	ps := syscall.Getpagesize()
	pages := (n+ps-1)/ps + 1
	mem, err := syscall.Mmap(-1, 0, (pages+1)*ps, syscall.PROT_READ|syscall.PROT_WRITE, syscall.MAP_ANON|syscall.MAP_PRIVATE)
	if err != nil {
		t.Fatalf("VERIF-INFRA: mmap: %v", err)
	}
	if err := syscall.Mprotect(mem[pages*ps:], syscall.PROT_NONE); err != nil {
		t.Fatalf("VERIF-INFRA: mprotect: %v", err)
	}
	end := pages * ps
	return mem[end-n : end : end], func() { _ = syscall.Munmap(mem) }
}

const rulePageEnd = "operands at the end of mapped memory: a, b and dst (each one independently, by a drawn mask; never all on the heap) are placed so that their last byte is the last byte of a writable page followed by a page without access rights, lengths 0..96 and 4000..4200 and k*4096 +- 9, dst exactly n or n+1..8 long; run with runtime/debug.SetPanicOnFault; oracle: no fault (every byte outside the operands is 'every other byte': an implementation that reads or writes past a slice faults here), result and return value as the byte-wise reference; non-trivial = min length not a multiple of 8; distinct by hash of the parameters"

// TestC20PageEnd: "for all inputs a and b and a destination at least n long" includes slices
// that end where mapped memory ends (a memory-mapped file, a shared-memory ring).
func TestC20PageEnd(t *testing.T) {
	r := ev.New("C20", "page-end", rulePageEnd)
	r.Essential = []string{"at-page-end/a", "at-page-end/b", "at-page-end/dst"}
	r.MinForEssential = 100
	ims := impls()
	r.Check(t, func(t *rapid.T, c *ev.Case) {
		im := ims[rapid.IntRange(0, len(ims)-1).Draw(t, "impl")]
		genLen := func(label string) int {
			switch rapid.IntRange(0, 9).Draw(t, label+"kind") {
			case 0:
				return rapid.IntRange(4000, 4200).Draw(t, label)
			case 1:
				return rapid.IntRange(1, 3).Draw(t, label+"k")*4096 + rapid.IntRange(-9, 9).Draw(t, label+"d")
			}
			return rapid.IntRange(0, 96).Draw(t, label)
		}
		la, lb := genLen("la"), genLen("lb")
		if rapid.Bool().Draw(t, "equal") {
			lb = la
		}
		n := min(la, lb)
		if im.direct && n == 0 {
			la, lb, n = 5, 5, 5
		}
		ld := n + rapid.SampledFrom([]int{0, 0, 0, 1, 3, 8}).Draw(t, "extraDst")
		mask := rapid.IntRange(1, 7).Draw(t, "atPageEnd") // bit 0: a, 1: b, 2: dst
		seed := rapid.Uint64().Draw(t, "seed")
		c.Set("case", fmt.Sprintf("%s la=%d lb=%d ld=%d mask=%d", im.name, la, lb, ld, mask))
		place := func(bit int, n int, what string) []byte {
			if mask&(1<<bit) != 0 {
				s, free := pageEnd(t, n)
				t.Cleanup(free)
				c.Label("at-page-end/" + what)
				return s
			}
			return make([]byte, n, n)
		}
		a, b, dst := place(0, la, "a"), place(1, lb, "b"), place(2, ld, "dst")
		fill(a, seed)
		fill(b, seed^0x9e3779b97f4a7c15)
		fill(dst, seed+7)
		a0, b0, d0 := append([]byte(nil), a...), append([]byte(nil), b...), append([]byte(nil), dst...)
		var got int
		fault := func() (msg string) {
			old := debug.SetPanicOnFault(true)
			defer debug.SetPanicOnFault(old)
			defer func() {
				if p := recover(); p != nil {
					msg = fmt.Sprint(p)
				}
			}()
			got = im.f(dst, a, b)
			return ""
		}()
		desc := fmt.Sprintf("impl=%s len(a)=%d len(b)=%d len(dst)=%d at the end of mapped memory: a=%v b=%v dst=%v", im.name, la, lb, ld, mask&1 != 0, mask&2 != 0, mask&4 != 0)
		if fault != "" {
			t.Fatalf("C20: XorBytes touched memory outside its operands (%s): %s", fault, desc)
		}
		if got != n {
			t.Fatalf("C20: returned %d, want min(len(a),len(b))=%d (%s)", got, n, desc)
		}
		for i := range dst {
			want := d0[i]
			if i < n {
				want = a0[i] ^ b0[i]
			}
			if dst[i] != want {
				t.Fatalf("C20: dst[%d] = %#x, want %#x (%s)", i, dst[i], want, desc)
			}
		}
		for i := range a {
			if a[i] != a0[i] {
				t.Fatalf("C20: a[%d] was modified (%s)", i, desc)
			}
		}
		for i := range b {
			if b[i] != b0[i] {
				t.Fatalf("C20: b[%d] was modified (%s)", i, desc)
			}
		}
		if n%8 != 0 {
			c.NonTrivial()
		}
	})
}
