module verifharness

go 1.23

require (
	github.com/pion/transport/v3 v3.0.0
	pgregory.net/rapid v1.3.0
)

require github.com/pion/logging v0.2.3

require (
	golang.org/x/net v0.34.0 // indirect
	golang.org/x/sys v0.29.0 // indirect
)

replace github.com/pion/transport/v3 => /repo
