module verifharness

go 1.23

require (
	github.com/pion/transport/v3 v3.0.0
	pgregory.net/rapid v1.3.0
)

require github.com/pion/logging v0.2.3

replace github.com/pion/transport/v3 => /repo
