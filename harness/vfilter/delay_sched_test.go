package vfilter

import (
	"context"
	"encoding/binary"
	"fmt"
	"strings"
	"sync"
	"testing"
	"time"

	"github.com/pion/transport/v3/vnet"
	"pgregory.net/rapid"

	"verifharness/ev"
	"verifharness/sched"
)

const ruleC14Sched = "controlled-schedule variant: DelayFilter.Run and 1..3 senders (1..4 chunks each) are scheduler tasks over the yield-instrumented vnet/delay_filter.go and chunk_queue.go (queue lock, the arrival notification send, the loop's select, timer channel receives); delay from {0, 1us, 50us, 1ms}; real timers wake the loop asynchronously, so the run ends only after the terminal-quiescence rule (two snapshots 1 ms apart with everything parked, plus a delay+3 ms horizon); oracle at quiescence: Run neither panicked nor returned, no sender is left blocked on its notification, every chunk forwarded exactly once, unmodified, in per-sender order and no sooner than the delay after it was handed in; non-trivial = a sender was held between queueing a chunk and notifying the loop while the loop ran; distinct by hash of plan + step trace"

func TestC14DelaySchedules(t *testing.T) {
	r := ev.New("C14", "delay-filter-schedules", ruleC14Sched)
	r.Essential = []string{"sender-held-before-notify", "delay/0"}
	r.MinForEssential = 150
	r.Assume("yield granularity = synchronisation operations of vnet/delay_filter.go and vnet/chunk_queue.go; timer expiries are real and not controlled")
	r.Check(t, func(t *rapid.T, c *ev.Case) {
		delay := rapid.SampledFrom([]time.Duration{0, 0, time.Microsecond, 50 * time.Microsecond, time.Millisecond}).Draw(t, "delay")
		ns := rapid.IntRange(1, 3).Draw(t, "senders")
		counts := make([]int, ns)
		total := 0
		for i := range counts {
			counts[i] = rapid.IntRange(1, 4).Draw(t, "n")
			total += counts[i]
		}
		rc := sched.NewRapidChooser(t)
		c.Set("delay", delay.String())
		c.Set("counts", fmt.Sprint(counts))
		c.Labelf("delay/%v", delay)
		if delay == 0 {
			c.Label("delay/0")
		}
		c.Label("strategy/" + sched.StrategyNames[rc.Strategy])
		t.Logf("delay=%v counts=%v strategy=%s", delay, counts, sched.StrategyNames[rc.Strategy])

		var mu sync.Mutex
		var got []delayEvent
		sink := vnet.VerifNewSink(func(ch vnet.Chunk) {
			d := ch.UserData()
			e := delayEvent{at: time.Now(), data: append([]byte(nil), d...), sender: -1}
			if len(d) >= 8 {
				e.sender, e.seq = int(binary.BigEndian.Uint32(d)), int(binary.BigEndian.Uint32(d[4:]))
			}
			mu.Lock()
			got = append(got, e)
			mu.Unlock()
		})
		f, err := vnet.NewDelayFilter(sink, delay)
		if err != nil {
			t.Fatal(err)
		}
		s := sched.New()
		s.QuiesceGap = time.Millisecond
		s.Horizon = delay + 3*time.Millisecond
		vnet.VerifSetHooks(&vnet.VerifHooks{Yield: s.Yield, Spawn: s.Spawn, Adopt: s.Adopt, Retire: s.Retire})
		ctx, cancel := context.WithCancel(context.Background())
		defer func() {
			s.Abort()
			cancel()
			// a sender may be parked on its notification if the loop died: release via a drain loop
			stop := make(chan struct{})
			go func() {
				for {
					select {
					case <-stop:
						return
					default:
					}
					vnet.VerifDrainDelayNotify(f)
					time.Sleep(50 * time.Microsecond)
				}
			}()
			s.Drain(2 * time.Second)
			close(stop)
			vnet.VerifSetHooks(nil)
		}()
		stamped := rapid.Bool().Draw(t, "stamped")
		pre := make([][]vnet.Chunk, ns)
		if stamped {
			c.Label("chunks/stamped-earlier")
			for i := 0; i < ns; i++ {
				for k := 0; k < counts[i]; k++ {
					p := make([]byte, 12)
					binary.BigEndian.PutUint32(p, uint32(i))
					binary.BigEndian.PutUint32(p[4:], uint32(k))
					ch := vnet.VerifNewChunkUDP(srcAddr, dstAddr, p)
					vnet.VerifStamp(ch)
					pre[i] = append(pre[i], ch)
				}
			}
			time.Sleep(delay) // the stamps are at least one delay old when the chunks arrive
		}
		runTask := s.Go("run", func() { f.Run(ctx) })
		before := make([][]time.Time, ns)
		for i := 0; i < ns; i++ {
			i := i
			before[i] = make([]time.Time, counts[i])
			s.Go(fmt.Sprintf("sender%d", i), func() {
				for k := 0; k < counts[i]; k++ {
					p := make([]byte, 12)
					binary.BigEndian.PutUint32(p, uint32(i))
					binary.BigEndian.PutUint32(p[4:], uint32(k))
					ch := vnet.VerifNewChunkUDP(srcAddr, dstAddr, p)
					if stamped {
						// the chunk carries the stamp of a router it entered earlier (it was made and
						// stamped when the case began); the filter's delay counts from the arrival
						// at the filter all the same
						ch = pre[i][k]
					}
					before[i][k] = time.Now()
					vnet.VerifInbound(f, ch)
				}
			})
		}
		var trace []string
		s.Run(chooserFn(func(ss *sched.Session, en []*sched.Task) *sched.Task {
			p := rc.Pick(ss, en)
			if p == nil {
				return nil
			}
			trace = append(trace, p.Name+"@"+p.Label())
			if p.Name == "run" {
				for _, e := range en {
					if strings.HasPrefix(e.Name, "sender") && e.Kind() == "send" {
						c.Label("sender-held-before-notify")
						c.NonTrivial()
					}
				}
			}
			return p
		}))
		for _, x := range trace {
			c.Op("%s", x)
		}
		if s.Discarded {
			c.Label("discarded/step-limit")
			return
		}
		t.Logf("terminal state:\n%s", s.Describe())
		for _, tk := range s.Tasks() {
			if p := tk.Panicked(); p != nil {
				t.Fatalf("C14: task %s panicked (delay %v): %v\n%s", tk.Name, delay, p, s.Describe())
			}
		}
		if runTask.State() == sched.Finished {
			t.Fatalf("C14: DelayFilter.Run returned although its context is live\n%s", s.Describe())
		}
		for _, tk := range s.BlockedTasks() {
			if strings.HasPrefix(tk.Name, "sender") {
				st, fr := tk.WaitInfo()
				t.Fatalf("C14: %s is left blocked in [%s] at %s: the forwarding loop no longer takes arrivals\n%s", tk.Name, st, fr, s.Describe())
			}
		}
		mu.Lock()
		defer mu.Unlock()
		if len(got) != total {
			t.Fatalf("C14: %d chunks handed in, %d forwarded at quiescence (delay %v, horizon %v)\n%s", total, len(got), delay, s.Horizon, s.Describe())
		}
		last := map[int]int{}
		seen := map[[2]int]bool{}
		for _, e := range got {
			if e.sender < 0 || e.sender >= ns || e.seq >= counts[e.sender] {
				t.Fatalf("C14: forwarded a chunk that was never handed in")
			}
			k := [2]int{e.sender, e.seq}
			if seen[k] {
				t.Fatalf("C14: chunk %v forwarded twice", k)
			}
			seen[k] = true
			if l, ok := last[e.sender]; ok && e.seq < l {
				t.Fatalf("C14: sender %d's chunk %d forwarded after its chunk %d", e.sender, e.seq, l)
			}
			last[e.sender] = e.seq
			if d := e.at.Sub(before[e.sender][e.seq]); d < delay {
				t.Fatalf("C14: chunk %v forwarded %v after hand-in, sooner than the delay %v", k, d, delay)
			}
		}
		c.Count("schedules", 1)
	})
}

type chooserFn func(s *sched.Session, en []*sched.Task) *sched.Task

func (f chooserFn) Pick(s *sched.Session, en []*sched.Task) *sched.Task { return f(s, en) }
