package vfilter

import (
	"bytes"
	"encoding/binary"
	"fmt"
	"math"
	"net"
	"sync"
	"testing"

	"github.com/pion/transport/v3/vnet"
	"pgregory.net/rapid"

	"verifharness/ev"
)

const ruleC16Conc = "concurrent arrivals: 2..8 goroutines push their own tagged streams (20000..80000 chunks each, sizes 8..40) at the same time into ONE loss filter (in-package shim) in front of a recording sink; chance from {0, 100, 1..99}; oracle: the filter never panics, chance 0 -> every chunk of every goroutine is forwarded, chance >= 100 -> nothing, always per goroutine an in-order duplicate-free byte-identical subsequence of what that goroutine pushed, and for 0<chance<100 the total number dropped lies within 6 sigma of N*p; non-trivial = every case (>= 2 goroutines, >= 40000 chunks); distinct by hash of chance + stream lengths"

// TestC16Concurrent feeds one loss filter from several goroutines at once: a router is
// not the only caller a NIC may have, and what the filter promises per datagram (forwarded
// at most once, unmodified, chance 0 loses nothing) does not depend on who else is calling.
func TestC16Concurrent(t *testing.T) {
	r := ev.New("C16", "concurrent-arrivals", ruleC16Conc)
	r.Essential = []string{"chance/0", "chance/>=100", "chance/middle"}
	r.MinForEssential = 30
	r.Assume("the statistical bound is 6 sigma (false-alarm probability below 2e-9 per assertion)")
	r.Check(t, func(t *rapid.T, c *ev.Case) {
		var chance int
		switch rapid.IntRange(0, 3).Draw(t, "kind") {
		case 0:
			chance = 0
		case 1:
			chance = rapid.SampledFrom([]int{100, 101, 1000}).Draw(t, "chance")
		default:
			chance = rapid.IntRange(1, 99).Draw(t, "chance")
		}
		w := rapid.IntRange(2, 8).Draw(t, "goroutines")
		lens := make([]int, w)
		total := 0
		for i := range lens {
			lens[i] = rapid.IntRange(20000, 80000).Draw(t, "n")
			total += lens[i]
		}
		c.Set("chance", chance)
		c.Set("streams", fmt.Sprint(lens))
		payload := func(g, serial int) []byte {
			p := make([]byte, 8+(g*7+serial*3)%33)
			binary.BigEndian.PutUint32(p, uint32(g))
			binary.BigEndian.PutUint32(p[4:], uint32(serial))
			for i := 8; i < len(p); i++ {
				p[i] = byte(g*31 + serial*5 + i)
			}
			return p
		}
		var mu sync.Mutex
		got := make([][][]byte, w)
		var stray string
		sink := vnet.VerifNewSink(func(ch vnet.Chunk) {
			d := ch.UserData()
			mu.Lock()
			defer mu.Unlock()
			if len(d) < 8 || int(binary.BigEndian.Uint32(d)) >= w {
				stray = fmt.Sprintf("forwarded a %d-byte chunk that never arrived", len(d))
				return
			}
			g := int(binary.BigEndian.Uint32(d))
			got[g] = append(got[g], d)
		})
		f, err := vnet.NewLossFilter(sink, chance)
		if err != nil {
			t.Fatalf("NewLossFilter(%d): %v", chance, err)
		}
		panics := make([]string, w)
		var wg sync.WaitGroup
		start := make(chan struct{})
		for g := 0; g < w; g++ {
			wg.Add(1)
			go func(g int) {
				defer wg.Done()
				<-start
				src := &net.UDPAddr{IP: srcAddr.IP, Port: 1000 + g}
				for s := 1; s <= lens[g]; s++ {
					ch := vnet.VerifNewChunkUDP(src, dstAddr, payload(g, s))
					func() {
						defer func() {
							if p := recover(); p != nil && panics[g] == "" {
								panics[g] = fmt.Sprintf("chunk %d of goroutine %d: %v", s, g, p)
							}
						}()
						vnet.VerifInbound(f, ch)
					}()
				}
			}(g)
		}
		close(start)
		wg.Wait()
		for _, p := range panics {
			if p != "" {
				t.Fatalf("C16: chance %d: LossFilter.onInboundChunk panicked under concurrent arrivals (%s)", chance, p)
			}
		}
		if stray != "" {
			t.Fatalf("C16: chance %d: %s", chance, stray)
		}
		forwarded := 0
		for g := range got {
			last := 0
			for i, d := range got[g] {
				s := int(binary.BigEndian.Uint32(d[4:]))
				if s < 1 || s > lens[g] {
					t.Fatalf("C16: chance %d: forwarded a chunk of goroutine %d that never arrived (serial %d)", chance, g, s)
				}
				if s <= last {
					t.Fatalf("C16: chance %d: goroutine %d: chunk %d forwarded out of order or twice (output position %d, previous %d)", chance, g, s, i, last)
				}
				if !bytes.Equal(d, payload(g, s)) {
					t.Fatalf("C16: chance %d: goroutine %d: chunk %d was forwarded modified", chance, g, s)
				}
				last = s
			}
			forwarded += len(got[g])
		}
		dropped := total - forwarded
		switch {
		case chance == 0:
			c.Label("chance/0")
			if dropped != 0 {
				t.Fatalf("C16: chance 0 dropped %d of %d chunks arriving from %d goroutines", dropped, total, w)
			}
		case chance >= 100:
			c.Label("chance/>=100")
			if forwarded != 0 {
				t.Fatalf("C16: chance %d forwarded %d of %d chunks", chance, forwarded, total)
			}
		default:
			c.Label("chance/middle")
			p := float64(chance) / 100
			dev := math.Abs(float64(dropped) - float64(total)*p)
			bound := 6 * math.Sqrt(float64(total)*p*(1-p))
			if dev > bound {
				t.Fatalf("C16: chance %d: dropped %d of %d chunks arriving from %d goroutines, expected %.0f +- %.0f (6 sigma)", chance, dropped, total, w, float64(total)*p, bound)
			}
		}
		c.NonTrivial()
	})
}

const ruleC16Every = "every configurable chance: for each chance 0..100 a stream of N tagged chunks (N drawn from 400000..600000 per case, sizes 4..12) is pushed through its own NewLossFilter in front of a counting sink (in-package shim); oracle: chance 0 forwards all, 100 none, otherwise |dropped - N*chance/100| <= 6*sqrt(N*p*(1-p)) - at this N a filter that is off by one percentage point at a single chance value lies 12 sigma out; non-trivial = every case; distinct by N"

// TestC16EveryChance enumerates the configuration parameter instead of sampling it: an error
// confined to a few chance values (a rounding step, a table entry) shows only there.
func TestC16EveryChance(t *testing.T) {
	r := ev.New("C16", "every-chance", ruleC16Every)
	r.Assume("the statistical bound is 6 sigma per chance value (false-alarm probability below 2e-9 per assertion, 2e-7 per case)")
	r.Check(t, func(t *rapid.T, c *ev.Case) {
		n := rapid.IntRange(400000, 600000).Draw(t, "n")
		c.Set("n", n)
		for chance := 0; chance <= 100; chance++ {
			forwarded := 0
			sink := vnet.VerifNewSink(func(vnet.Chunk) { forwarded++ })
			f, err := vnet.NewLossFilter(sink, chance)
			if err != nil {
				t.Fatalf("NewLossFilter(%d): %v", chance, err)
			}
			p := make([]byte, 12)
			ch := vnet.VerifNewChunkUDP(srcAddr, dstAddr, p)
			for i := 0; i < n; i++ {
				vnet.VerifInbound(f, ch)
			}
			dropped := n - forwarded
			pr := float64(chance) / 100
			bound := 6 * math.Sqrt(float64(n)*pr*(1-pr))
			if dev := math.Abs(float64(dropped) - float64(n)*pr); dev > bound {
				t.Fatalf("C16: chance %d: dropped %d of %d chunks, expected %.0f +- %.0f (6 sigma): the dropped fraction is %.4f, not %d/100", chance, dropped, n, float64(n)*pr, bound, float64(dropped)/float64(n), chance)
			}
		}
		c.Label("all-101-chances")
		c.NonTrivial()
	})
}
