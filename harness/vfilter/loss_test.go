// Package vfilter holds the in-package checks of the vnet chunk filters:
// C16 (loss filter), C15 (token bucket, virtual clock) and C14 (delay).
package vfilter

import (
	"bytes"
	"encoding/binary"
	"fmt"
	"math"
	"net"
	"testing"
	"time"

	"github.com/pion/transport/v3/vnet"
	"pgregory.net/rapid"

	"verifharness/ev"
)

var (
	srcAddr = &net.UDPAddr{IP: net.IPv4(10, 0, 0, 1), Port: 1111}
	dstAddr = &net.UDPAddr{IP: net.IPv4(10, 0, 0, 2), Port: 2222}
)

func tagged(serial, size int) []byte {
	if size < 4 {
		size = 4
	}
	p := make([]byte, size)
	binary.BigEndian.PutUint32(p, uint32(serial))
	for i := 4; i < size; i++ {
		p[i] = byte(serial*5 + i*3)
	}
	return p
}

// subsequence checks that got is an in-order, duplicate-free, byte-identical
// subsequence of the stream 1..n of tagged chunks with the given sizes.
func subsequence(sizes []int, got [][]byte) (string, int) {
	last := 0
	for i, g := range got {
		if len(g) < 4 {
			return "forwarded a chunk shorter than anything that arrived", i
		}
		s := int(binary.BigEndian.Uint32(g))
		if s < 1 || s > len(sizes) {
			return "forwarded a chunk that never arrived", i
		}
		if s <= last {
			return "forwarded a chunk out of order or twice", i
		}
		if !bytes.Equal(g, tagged(s, sizes[s-1])) {
			return "forwarded a modified chunk", i
		}
		last = s
	}
	return "", 0
}

const ruleC16 = "rapid-drawn loss chance from {0,1,5,50,95,99,100,101,1000,-1,-50} and uniform 0..100, stream of 0..2000 tagged chunks (sizes 4..1500) (UDP chunks, in a quarter of the cases TCP segments with drawn control bits) pushed through NewLossFilter in front of a recording sink NIC (in-package shim), in a quarter of the cases with one or two more loss filters of chance 0 stacked in front of it; 1 in 10 cases is a statistical case with 40000 chunks, during which further loss filters may be constructed every 1, 2, 7, 100 or 1000 chunks; oracle: chance 0 -> output == input, chance >= 100 -> nothing, always an in-order duplicate-free byte-identical subsequence whose chunks show the same String(), Tag(), Network() and addresses as on arrival, 0<chance<100 on 40000 chunks -> |dropped - N*p| <= 6*sqrt(N*p*(1-p)); non-trivial = stream of >= 100 chunks with mixed sizes; distinct by hash of chance + sizes"

func TestC16Loss(t *testing.T) {
	r := ev.New("C16", "in-package", ruleC16)
	r.Essential = []string{"chance/0", "chance/>=100", "chance/middle", "statistical"}
	r.MinForEssential = 300
	r.Assume("the statistical bound is 6 sigma (false-alarm probability below 2e-9 per assertion); math/rand's global source is used by the filter")
	r.Check(t, func(t *rapid.T, c *ev.Case) {
		var chance int
		if rapid.Bool().Draw(t, "fixed") {
			chance = rapid.SampledFrom([]int{0, 1, 5, 50, 95, 99, 100, 101, 1000, -1, -50}).Draw(t, "chance")
		} else {
			chance = rapid.IntRange(0, 100).Draw(t, "chance")
		}
		stat := rapid.IntRange(0, 9).Draw(t, "stat") == 0
		n := rapid.IntRange(0, 2000).Draw(t, "n")
		others := 0
		if stat {
			n = 40000
			c.Label("statistical")
			others = rapid.SampledFrom([]int{0, 0, 1, 2, 7, 100, 1000}).Draw(t, "othersEvery")
			if others > 0 && others <= 2 {
				n = 8000 // every construction re-seeds the shared source, which is slow
			}
		}
		sizes := make([]int, n)
		base := rapid.IntRange(4, 1500).Draw(t, "size")
		spread := rapid.IntRange(0, 200).Draw(t, "spread")
		for i := range sizes {
			sizes[i] = 4 + (base+(i*7)%(spread+1))%1497
			if stat {
				sizes[i] = 4 + i%29
			}
		}
		c.Set("chance", chance)
		c.Set("n", n)
		c.Op("base=%d spread=%d", base, spread)
		// a quarter of the streams are TCP segments with drawn control bits: what a chunk
		// shows through its exported methods must survive the filter as well
		tcp := rapid.IntRange(0, 3).Draw(t, "tcp") == 0
		if tcp {
			c.Label("chunks/tcp")
		}
		tcpSrc := &net.TCPAddr{IP: srcAddr.IP, Port: srcAddr.Port}
		tcpDst := &net.TCPAddr{IP: dstAddr.IP, Port: dstAddr.Port}
		shown := map[int][3]string{} // serial -> String(), Tag(), Network() at arrival
		var got [][]byte
		var gotChunks []vnet.Chunk
		sink := vnet.VerifNewSink(func(ch vnet.Chunk) {
			got = append(got, ch.UserData())
			gotChunks = append(gotChunks, ch)
		})
		var f vnet.NIC
		f, err := vnet.NewLossFilter(sink, chance)
		if err != nil {
			t.Fatalf("NewLossFilter(%d): %v", chance, err)
		}
		// a quarter of the filters sit behind one or two further loss filters with chance 0
		// (a lossy host behind a lossy link): those forward everything, so the stream that
		// reaches the filter under test - and every rule about it - stays the same
		if depth := rapid.SampledFrom([]int{0, 0, 0, 0, 0, 0, 1, 2}).Draw(t, "stackedBehind"); depth > 0 {
			for i := 0; i < depth; i++ {
				outer, err := vnet.NewLossFilter(f, 0)
				if err != nil {
					t.Fatalf("NewLossFilter: %v", err)
				}
				f = outer
			}
			c.Label("stacked-filters")
		}
		// other loss filters may be constructed while this one carries traffic (every network
		// under test builds its own): the stream of this filter stays what it is
		if others > 0 {
			c.Label("other-filters-constructed-mid-stream")
		}
		streamDone := make(chan string, 1)
		go func() {
			msg := ""
			defer func() { streamDone <- msg }()
			for i, sz := range sizes {
				if others > 0 && i%others == 0 {
					if _, err := vnet.NewLossFilter(sink, 50); err != nil {
						msg = fmt.Sprintf("NewLossFilter: %v", err)
						return
					}
				}
				ch := vnet.VerifNewChunkUDP(srcAddr, dstAddr, tagged(i+1, sz))
				if tcp {
					ch = vnet.VerifNewChunkTCP(tcpSrc, tcpDst, uint8(1+(i*7)%31), tagged(i+1, sz))
				}
				if !stat {
					shown[i+1] = [3]string{ch.String(), ch.Tag(), ch.Network()}
				}
				func() {
					defer func() {
						if p := recover(); p != nil && msg == "" {
							msg = fmt.Sprintf("C16: LossFilter.onInboundChunk panicked: %v", p)
						}
					}()
					vnet.VerifInbound(f, ch)
				}()
				if msg != "" {
					return
				}
			}
		}()
		select {
		case msg := <-streamDone:
			if msg != "" {
				t.Fatalf("%s", msg)
			}
		case <-time.After(10 * time.Second):
			// (a machine that stood still shows in the stall detector's VERIF-INFRA line, which
			// takes precedence in the driver)
			t.Fatalf("C16: chance %d: onInboundChunk has not returned for 10 s (%d chunks pushed so far through %s): the datagram is neither forwarded nor dropped", chance, len(got), map[bool]string{true: "stacked filters", false: "one filter"}[c.Has("stacked-filters")])
		}
		if msg, at := subsequence(sizes, got); msg != "" {
			t.Fatalf("C16: chance %d: %s (output position %d)", chance, msg, at)
		}
		for _, ch := range gotChunks {
			if want, ok := shown[int(binary.BigEndian.Uint32(ch.UserData()))]; ok {
				if now := [3]string{ch.String(), ch.Tag(), ch.Network()}; now != want {
					t.Fatalf("C16: chance %d: a forwarded chunk shows %q (tag %q, network %s), it arrived as %q (tag %q, network %s)", chance, now[0], now[1], now[2], want[0], want[1], want[2])
				}
			}
			if ch.SourceAddr().String() != srcAddr.String() || ch.DestinationAddr().String() != dstAddr.String() {
				t.Fatalf("C16: forwarded chunk has addresses %s -> %s, arrived with %s -> %s", ch.SourceAddr(), ch.DestinationAddr(), srcAddr, dstAddr)
			}
		}
		dropped := n - len(got)
		switch {
		case chance == 0:
			c.Label("chance/0")
			if dropped != 0 {
				t.Fatalf("C16: chance 0 dropped %d of %d chunks", dropped, n)
			}
		case chance >= 100:
			c.Label("chance/>=100")
			if len(got) != 0 {
				t.Fatalf("C16: chance %d forwarded %d of %d chunks", chance, len(got), n)
			}
		case chance < 0:
			c.Label("chance/negative")
		default:
			c.Label("chance/middle")
			if stat {
				p := float64(chance) / 100
				dev := math.Abs(float64(dropped) - float64(n)*p)
				bound := 6 * math.Sqrt(float64(n)*p*(1-p))
				if dev > bound {
					t.Fatalf("C16: chance %d: dropped %d of %d chunks, expected %.0f +- %.0f (6 sigma)", chance, dropped, n, float64(n)*p, bound)
				}
			}
		}
		if n >= 100 && spread > 0 || stat {
			c.NonTrivial()
		}
	})
}
