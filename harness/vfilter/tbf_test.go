package vfilter

import (
	"bytes"
	"context"
	"fmt"
	"strings"
	"testing"
	"time"

	"github.com/pion/transport/v3/vnet"
	"pgregory.net/rapid"

	"verifharness/ev"
	"verifharness/sched"
	"verifharness/vclock"
)

// waitParked blocks until a goroutine with the given frame is parked in the
// given state (the filter loop back in its select). Returns false on timeout.
func waitParked(frame, state string) bool {
	deadline := time.Now().Add(5 * time.Second)
	for {
		for _, g := range sched.Snapshot() {
			if g.State != state {
				continue
			}
			for _, f := range g.Frames {
				if strings.HasSuffix(f, frame) {
					return true
				}
			}
		}
		if time.Now().After(deadline) {
			return false
		}
		time.Sleep(10 * time.Microsecond)
	}
}

type fwdEvent struct {
	at    time.Duration
	bytes int
}

type cfgChange struct {
	at          time.Duration
	rate, burst int
}

const ruleC15 = "rapid-drawn token bucket configuration (rate 8 kbit/s..100 Mbit/s, burst 100..100000 B, queue 1000..200000 B) and arrival pattern (5..300 chunks, sizes 0..3*burst, gaps {0,1 ms,50 ms,90..110 ms,1 s,1 h}, in a third of the cases a burst-sized arrival followed by a run of 20..80 arrivals of 1..3 bytes spaced m+1/2, m+3/4 or m+9/10 byte-times apart, run-time Set(TBFRate|TBFMaxBurst) at drawn points: on average every 25th, 4th or 2nd arrival, to one of the listed values or to the current rate +-1/8 bit/s) on the clock-redirected vnet/tbf.go; virtual time advances only while the filter goroutine is parked in its select, so every forwarding event has an exact timestamp; oracle: for all pairs i<=j of forwarding events sum(bytes i..j) <= B + R*(t_j-t_i)/8 with B,R the largest burst/rate configured at any instant of the interval; the forwarded chunks are exactly the head-of-queue objects in arrival order with unchanged contents; an arrival is discarded only if queued bytes + its length >= the queue size; non-trivial = the bucket was drained and refilled at least twice and at least one idle gap exceeded burst/rate; distinct by hash of configuration + arrivals"

func TestC15TokenBucket(t *testing.T) {
	r := ev.New("C15", "virtual-clock", ruleC15)
	r.Essential = []string{"gap/90..110ms", "gap/1h", "size/above-burst", "discard", "set/rate", "set/burst", "set/frequent", "set/rate-nudge", "drained>=2", "gap/fractional-byte-times"}
	r.MinForEssential = 300
	r.Assume("the filter reads the clock only through time.Now/time.Since (checked by the instrumentation pass: no unsupported time facility in vnet/tbf.go)")
	r.Check(t, func(t *rapid.T, c *ev.Case) {
		rate := rapid.SampledFrom([]int{8000, 64000, 1000000, 8000000, 100000000}).Draw(t, "rate")
		burst := rapid.SampledFrom([]int{100, 1500, 8000, 100000}).Draw(t, "burst")
		qsize := rapid.SampledFrom([]int{1000, 50000, 200000}).Draw(t, "queue")
		c.Set("rate_bps", rate)
		c.Set("burst_B", burst)
		c.Set("queue_B", qsize)
		clock := vclock.New(time.Date(2032, 2, 2, 0, 0, 0, 0, time.UTC))
		vnet.VerifSetHooks(&vnet.VerifHooks{Now: clock.Now})
		defer vnet.VerifSetHooks(nil)

		var events []fwdEvent
		var expected []vnet.Chunk // accepted, not yet forwarded (FIFO)
		var copies [][]byte
		var violation string
		sink := vnet.VerifNewSink(func(ch vnet.Chunk) {
			if len(expected) == 0 {
				violation = "forwarded a chunk although nothing is queued (duplicate or invented)"
				return
			}
			if ch != expected[0] {
				violation = "forwarded a chunk that is not the oldest queued one (reordered, duplicated or replaced)"
				return
			}
			if !bytes.Equal(ch.UserData(), copies[0]) {
				violation = "forwarded a chunk with modified contents"
				return
			}
			expected, copies = expected[1:], copies[1:]
			events = append(events, fwdEvent{clock.Offset(), len(ch.UserData())})
		})
		tbf, err := vnet.NewTokenBucketFilter(sink, vnet.TBFRate(rate), vnet.TBFMaxBurst(burst), vnet.TBFQueueSizeInBytes(qsize))
		if err != nil {
			t.Fatalf("NewTokenBucketFilter: %v", err)
		}
		defer tbf.Close() //nolint:errcheck
		const runFrame = "vnet.(*TokenBucketFilter).run"
		if !waitParked(runFrame, "select") {
			t.Fatalf("VERIF-INFRA: filter goroutine never parked")
		}
		changes := []cfgChange{{0, rate, burst}}
		curRate, curBurst := rate, burst
		n := rapid.IntRange(5, 300).Draw(t, "arrivals")
		// how often the configuration changes at run time: rarely, or every few arrivals
		setOneIn := rapid.SampledFrom([]int{25, 25, 4, 2}).Draw(t, "setOneIn")
		if setOneIn <= 4 {
			c.Label("set/frequent")
		}
		drained, longIdle := 0, false
		t.Logf("rate=%d bit/s burst=%d B queue=%d B", rate, burst, qsize)
		// a run of evenly spaced small arrivals whose spacing is a fractional number of
		// byte-times (m + 1/2, 3/4 or 9/10): every credit then has a fractional part
		runAt, runLen, runM, runF := -1, 0, 0, 0.0
		if rapid.IntRange(0, 2).Draw(t, "fracRun") == 0 && n > 20 {
			runAt = rapid.IntRange(0, n-20).Draw(t, "runAt")
			runLen = rapid.IntRange(20, 80).Draw(t, "runLen")
			runM = rapid.IntRange(0, 2).Draw(t, "runWhole")
			runF = rapid.SampledFrom([]float64{0.5, 0.75, 0.9}).Draw(t, "runFrac")
			c.Label("gap/fractional-byte-times")
		}
		for i := 0; i < n; i++ {
			var gap time.Duration
			inRun := runAt >= 0 && i >= runAt && i < runAt+runLen
			gk := rapid.IntRange(0, 9).Draw(t, "gap")
			switch {
			case inRun:
				byteTime := float64(time.Second) * 8 / float64(curRate)
				gap = time.Duration((float64(runM) + runF) * byteTime)
			case gk < 3:
				c.Label("gap/0")
			case gk < 4:
				gap = time.Millisecond
			case gk < 5:
				gap = 50 * time.Millisecond
			case gk < 8:
				gap = time.Duration(rapid.IntRange(90, 110).Draw(t, "ms")) * time.Millisecond
				c.Label("gap/90..110ms")
			case gk < 9:
				gap = time.Second
			default:
				gap = time.Hour
				c.Label("gap/1h")
			}
			if float64(gap.Seconds()) > float64(curBurst)*8/float64(curRate) {
				longIdle = true
			}
			clock.Advance(gap)
			if rapid.IntRange(0, setOneIn-1).Draw(t, "set") == 0 {
				if rapid.Bool().Draw(t, "which") {
					if rapid.Bool().Draw(t, "nudge") {
						// a change that barely moves the rate: the bound stays essentially the same, the code path does not
						curRate += rapid.SampledFrom([]int{-1, 1, -8, 8}).Draw(t, "drate")
						if curRate < 8 {
							curRate = 8
						}
						c.Label("set/rate-nudge")
					} else {
						curRate = rapid.SampledFrom([]int{8000, 64000, 1000000, 8000000}).Draw(t, "nrate")
					}
					tbf.Set(vnet.TBFRate(curRate))
					c.Label("set/rate")
					c.Op("Set rate %d", curRate)
				} else {
					curBurst = rapid.SampledFrom([]int{100, 1500, 8000, 100000}).Draw(t, "nburst")
					tbf.Set(vnet.TBFMaxBurst(curBurst))
					c.Label("set/burst")
					c.Op("Set burst %d", curBurst)
				}
				changes = append(changes, cfgChange{clock.Offset(), curRate, curBurst})
				t.Logf("t=%v Set rate=%d burst=%d", clock.Offset(), curRate, curBurst)
			}
			var size int
			switch sk := rapid.IntRange(0, 9).Draw(t, "sk"); {
			case inRun && i == runAt:
				size = curBurst // empties the bucket: from here on every credit is spent at once
			case inRun:
				size = rapid.IntRange(1, 3).Draw(t, "runSize")
			case sk < 1:
				size = 0
			case sk < 7:
				size = rapid.IntRange(1, curBurst).Draw(t, "size")
			case sk < 8:
				size = curBurst
			default:
				size = rapid.IntRange(curBurst+1, 3*curBurst).Draw(t, "size")
				c.Label("size/above-burst")
			}
			if size > 65000 {
				size = 65000
			}
			payload := make([]byte, size)
			for j := range payload {
				payload[j] = byte(i + j)
			}
			ch := vnet.VerifNewChunkUDP(srcAddr, dstAddr, payload)
			q0, b0 := tbf.VerifQueue()
			if q0 < 0 || b0 < 0 {
				t.Fatalf("VERIF-INFRA: the chunk queue of this tree cannot be read by the shim (fields chunks/currentBytes are gone); C15's discard rule cannot be judged")
			}
			f0 := len(events)
			// optimistic: assume accepted; corrected below if it was discarded
			expected = append(expected, ch)
			copies = append(copies, append([]byte(nil), payload...))
			vnet.VerifInbound(tbf, ch)
			if !waitParked(runFrame, "select") {
				t.Fatalf("VERIF-INFRA: filter goroutine did not return to its select")
			}
			if violation != "" {
				t.Fatalf("C15: at t=%v: %s", clock.Offset(), violation)
			}
			q1, _ := tbf.VerifQueue()
			fwd := len(events) - f0
			accepted := q1+fwd == q0+1
			c.Op("+%v size %d -> fwd %d queued %d", gap, size, fwd, q1)
			t.Logf("t=%v arrival %d: %d bytes -> forwarded %d, queue %d -> %d chunks (accepted=%v)", clock.Offset(), i, size, fwd, q0, q1, accepted)
			if !accepted {
				if q1+fwd != q0 {
					t.Fatalf("C15: queue accounting broken: %d queued + %d forwarded after an arrival on %d queued", q1, fwd, q0)
				}
				// discarded: must have been the newest one
				c.Label("discard")
				if b0+size < qsize {
					t.Fatalf("C15: a %d-byte datagram was discarded although only %d of %d queue bytes were in use", size, b0, qsize)
				}
				// remove it from the expectation (it is the last one appended)
				expected = expected[:len(expected)-1]
				copies = copies[:len(copies)-1]
			}
			if q1 > 0 && fwd > 0 || q1 > 0 && q0 == 0 {
				drained++
			}
		}
		if len(expected) != func() int { q, _ := tbf.VerifQueue(); return q }() {
			t.Fatalf("C15: %d chunks should be waiting, the filter holds %d", len(expected), func() int { q, _ := tbf.VerifQueue(); return q }())
		}
		// the inequality over all sub-intervals
		for i := range events {
			sum := 0
			for j := i; j < len(events); j++ {
				sum += events[j].bytes
				B, R := maxCfg(changes, events[i].at, events[j].at)
				bound := float64(B) + float64(R)*(events[j].at-events[i].at).Seconds()/8
				if float64(sum) > bound*(1+1e-9)+1e-6 {
					t.Fatalf("C15: %d bytes forwarded between t=%v and t=%v (%v apart), the bound is burst %d + rate %d bit/s x interval = %.1f bytes",
						sum, events[i].at, events[j].at, events[j].at-events[i].at, B, R, bound)
				}
			}
		}
		if drained >= 2 {
			c.Label("drained>=2")
			if longIdle {
				c.NonTrivial()
			}
		}
		c.Count("forwarded", int64(len(events)))
	})
}

// maxCfg returns the largest burst and rate in force at any instant of [a,b].
func maxCfg(ch []cfgChange, a, b time.Duration) (burst, rate int) {
	for i, c := range ch {
		end := time.Duration(1<<62 - 1)
		if i+1 < len(ch) {
			end = ch[i+1].at
		}
		// in force during [c.at, end]
		if c.at <= b && end >= a {
			if c.burst > burst {
				burst = c.burst
			}
			if c.rate > rate {
				rate = c.rate
			}
		}
	}
	return
}

var _ = fmt.Sprintf

func contextWithCancel() (context.Context, context.CancelFunc) {
	return context.WithCancel(context.Background())
}
