package vfilter

import (
	"testing"
	"time"

	"github.com/pion/transport/v3/vnet"

	"verifharness/vclock"
)

// C15-lazy-refill (fixed by c0c7cd8): time that passed while the bucket was
// full was credited later; 16000 bytes left a 1 Mbit/s, 8000-byte-burst
// filter within 11 ms.
func TestRegressC15_LazyRefill(t *testing.T) {
	clock := vclock.New(time.Date(2032, 2, 2, 0, 0, 0, 0, time.UTC))
	vnet.VerifSetHooks(&vnet.VerifHooks{Now: clock.Now})
	defer vnet.VerifSetHooks(nil)
	var fwd []int
	var at []time.Duration
	sink := vnet.VerifNewSink(func(ch vnet.Chunk) {
		fwd = append(fwd, len(ch.UserData()))
		at = append(at, clock.Offset())
	})
	tbf, err := vnet.NewTokenBucketFilter(sink, vnet.TBFRate(1*vnet.MBit), vnet.TBFMaxBurst(8000))
	if err != nil {
		t.Fatal(err)
	}
	defer tbf.Close() //nolint:errcheck
	const runFrame = "vnet.(*TokenBucketFilter).run"
	waitParked(runFrame, "select")
	send := func(n int) {
		vnet.VerifInbound(tbf, vnet.VerifNewChunkUDP(srcAddr, dstAddr, make([]byte, n)))
		waitParked(runFrame, "select")
	}
	clock.Advance(90 * time.Millisecond)
	send(8000)
	clock.Advance(11 * time.Millisecond)
	send(8000)
	total := 0
	for _, n := range fwd {
		total += n
	}
	// bound over [90ms, 101ms]: 8000 + 1e6*0.011/8 = 9375
	if total > 9375 {
		t.Fatalf("C15: %d bytes forwarded within 11 ms by a 1 Mbit/s filter with an 8000-byte burst (bound 9375): %v at %v", total, fwd, at)
	}
}

// C15 burst reduction (fixed by c0c7cd8): tokens collected under a large
// burst were spent after the burst had been lowered.
func TestRegressC15_BurstLowered(t *testing.T) {
	clock := vclock.New(time.Date(2032, 2, 2, 0, 0, 0, 0, time.UTC))
	vnet.VerifSetHooks(&vnet.VerifHooks{Now: clock.Now})
	defer vnet.VerifSetHooks(nil)
	total := 0
	sink := vnet.VerifNewSink(func(ch vnet.Chunk) { total += len(ch.UserData()) })
	tbf, err := vnet.NewTokenBucketFilter(sink, vnet.TBFRate(64000), vnet.TBFMaxBurst(8000))
	if err != nil {
		t.Fatal(err)
	}
	defer tbf.Close() //nolint:errcheck
	const runFrame = "vnet.(*TokenBucketFilter).run"
	waitParked(runFrame, "select")
	send := func(n int) {
		vnet.VerifInbound(tbf, vnet.VerifNewChunkUDP(srcAddr, dstAddr, make([]byte, n)))
		waitParked(runFrame, "select")
	}
	clock.Advance(time.Hour) // bucket full: 8000 tokens at the next refill
	send(1)
	total = 0
	tbf.Set(vnet.TBFMaxBurst(100))
	clock.Advance(time.Millisecond)
	send(70)
	send(70)
	send(70)
	// bound after the change: 100 + 64000*0.001/8 = 108
	if total > 108 {
		t.Fatalf("C15: %d bytes forwarded at once after the burst was lowered to 100 bytes", total)
	}
}

// C14-delay-filter-nil-peek (fixed by e1ae321): with delay 0 the forwarding
// loop panicked within a few dozen arrivals.
func TestRegressC14_ZeroDelay(t *testing.T) {
	for round := 0; round < 30; round++ {
		n := 0
		sink := vnet.VerifNewSink(func(vnet.Chunk) { n++ })
		f, _ := vnet.NewDelayFilter(sink, 0)
		ctx, cancel := contextWithCancel()
		done := make(chan any, 1)
		go func() {
			defer func() { done <- recover() }()
			f.Run(ctx)
		}()
		sent := make(chan struct{})
		go func() {
			defer close(sent)
			for i := 0; i < 200; i++ {
				vnet.VerifInbound(f, vnet.VerifNewChunkUDP(srcAddr, dstAddr, []byte{byte(i)}))
			}
		}()
		select {
		case <-sent:
		case p := <-done:
			cancel()
			t.Fatalf("C14: DelayFilter.Run ended with delay 0: %v", p)
		case <-time.After(5 * time.Second):
			cancel()
			t.Fatalf("C14: senders blocked for 5 s with delay 0 (forwarding loop dead?)")
		}
		cancel()
		if p := <-done; p != nil {
			t.Fatalf("C14: DelayFilter.Run panicked with delay 0: %v", p)
		}
	}
}
