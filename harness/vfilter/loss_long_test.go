package vfilter

import (
	"math"
	"testing"

	"github.com/pion/transport/v3/vnet"
	"pgregory.net/rapid"

	"verifharness/ev"
)

const ruleC16Long = "long streams: one loss filter per case with a chance from {1,5,25,50,75,95,99}, 16 000 000 arrivals of one chunk object in front of a counting sink, the dropped count read at 2^k arrivals (k = 16..23) and at the end; oracle at every one of these stream lengths N: |dropped - N*p| <= 6*sqrt(N*p*(1-p)) - the longer the stream the tighter the relative bound, which is what exposes a filter whose decisions stop being fresh draws (a replayed table of decisions freezes the fraction at k/period); chance 100 and 0 on the same length: nothing / everything forwarded; non-trivial = every case; distinct by chance and PRNG state (counted by case number)"

func TestC16LongStream(t *testing.T) {
	r := ev.New("C16", "long-stream", ruleC16Long)
	r.Assume("6 sigma at 9 stream lengths per case: false-alarm probability below 2e-8 per case")
	caseNo := 0
	r.Check(t, func(t *rapid.T, c *ev.Case) {
		caseNo++
		chance := rapid.SampledFrom([]int{1, 5, 25, 50, 75, 95, 99, 50, 25, 75, 0, 100}).Draw(t, "chance")
		c.Op("chance %d case %d", chance, caseNo)
		c.Labelf("chance/%d", chance)
		forwarded := 0
		sink := vnet.VerifNewSink(func(vnet.Chunk) { forwarded++ })
		f, err := vnet.NewLossFilter(sink, chance)
		if err != nil {
			t.Fatalf("NewLossFilter(%d): %v", chance, err)
		}
		ch := vnet.VerifNewChunkUDP(srcAddr, dstAddr, tagged(1, 16))
		const total = 16000000
		p := float64(chance) / 100
		check := func(n int) {
			dropped := n - forwarded
			switch chance {
			case 0:
				if dropped != 0 {
					t.Fatalf("C16: chance 0 dropped %d of %d chunks", dropped, n)
				}
			case 100:
				if forwarded != 0 {
					t.Fatalf("C16: chance 100 forwarded %d of %d chunks", forwarded, n)
				}
			default:
				dev := math.Abs(float64(dropped) - float64(n)*p)
				bound := 6 * math.Sqrt(float64(n)*p*(1-p))
				if dev > bound {
					t.Fatalf("C16: chance %d: dropped %d of a stream of %d chunks, expected %.0f +- %.0f (6 sigma): the dropped fraction %.5f is not chance/100 within statistical error",
						chance, dropped, n, float64(n)*p, bound, float64(dropped)/float64(n))
				}
			}
		}
		next := 1 << 16
		for i := 1; i <= total; i++ {
			vnet.VerifInbound(f, ch)
			if i == next {
				check(i)
				next <<= 1
			}
		}
		check(total)
		c.Count("chunks", total)
		c.NonTrivial()
	})
}
