package vfilter

import (
	"bytes"
	"context"
	"encoding/binary"
	"fmt"
	"runtime"
	"strings"
	"sync"
	"testing"
	"time"

	"github.com/pion/transport/v3/vnet"
	"pgregory.net/rapid"

	"verifharness/ev"
	"verifharness/sched"
)

type delayEvent struct {
	sender, seq int
	at          time.Time
	data        []byte
}

const ruleC14Filter = "free-running DelayFilter in front of a recording sink (in-package shim), Run started by the harness with a panic trap: delay from {0, 1us, 50us, 1ms, 5ms, 20ms}; 1..4 sender goroutines deliver 1..30 tagged chunks each in rapid-drawn bursts and gaps (0, a few Gosched, delay/2, delay, 2*delay); oracle: every chunk forwarded exactly once, unmodified, per-sender order preserved (global order with one sender), forwarded no sooner than delay after it was handed in (monotonic clock; scheduling noise can only increase the difference), Run never panics, and every chunk is forwarded within delay + 3 s (otherwise a goroutine snapshot must show why); non-trivial = >=2 senders or gaps around the delay value, with >=10 chunks; distinct by hash of the plan"

func TestC14DelayFilter(t *testing.T) {
	r := ev.New("C14", "delay-filter-free", ruleC14Filter)
	r.Essential = []string{"delay/0", "delay/1us", "senders>=2"}
	r.MinForEssential = 200
	r.Assume("lower-bound timing check uses the monotonic clock: stamp taken before the chunk is handed in, stamp taken inside the sink")
	r.Check(t, func(t *rapid.T, c *ev.Case) {
		delay := rapid.SampledFrom([]time.Duration{0, time.Microsecond, 50 * time.Microsecond, time.Millisecond, 5 * time.Millisecond, 20 * time.Millisecond}).Draw(t, "delay")
		ns := rapid.IntRange(1, 4).Draw(t, "senders")
		type step struct{ size, gap int }
		plans := make([][]step, ns)
		total := 0
		aroundDelay := false
		for s := range plans {
			n := rapid.IntRange(1, 30).Draw(t, "n")
			for i := 0; i < n; i++ {
				g := rapid.IntRange(0, 7).Draw(t, "gap")
				if g >= 5 {
					aroundDelay = true
				}
				plans[s] = append(plans[s], step{rapid.IntRange(8, 200).Draw(t, "size"), g})
			}
			total += n
			c.Op("sender %d: %v", s, plans[s])
		}
		c.Set("delay", delay.String())
		c.Set("senders", ns)
		switch delay {
		case 0:
			c.Label("delay/0")
		case time.Microsecond:
			c.Label("delay/1us")
		default:
			c.Label("delay/" + delay.String())
		}
		if ns >= 2 {
			c.Label("senders>=2")
		}
		if (ns >= 2 || aroundDelay) && total >= 10 {
			c.NonTrivial()
		}

		var mu sync.Mutex
		var got []delayEvent
		sink := vnet.VerifNewSink(func(ch vnet.Chunk) {
			now := time.Now()
			d := ch.UserData()
			e := delayEvent{at: now, data: append([]byte(nil), d...)}
			if len(d) >= 8 {
				e.sender = int(binary.BigEndian.Uint32(d))
				e.seq = int(binary.BigEndian.Uint32(d[4:]))
			} else {
				e.sender = -1
			}
			mu.Lock()
			got = append(got, e)
			mu.Unlock()
		})
		f, err := vnet.NewDelayFilter(sink, delay)
		if err != nil {
			t.Fatalf("NewDelayFilter: %v", err)
		}
		ctx, cancel := context.WithCancel(context.Background())
		runDone := make(chan string, 1)
		go func() {
			defer func() {
				if p := recover(); p != nil {
					buf := make([]byte, 4096)
					runDone <- fmt.Sprintf("%v\n%s", p, buf[:runtime.Stack(buf, false)])
					return
				}
				runDone <- ""
			}()
			f.Run(ctx)
		}()
		// in half of the cases the chunks are made and stamped now, as a router would stamp
		// them on entry; they are handed to the filter later
		stamped := rapid.Bool().Draw(t, "stamped")
		pre := make([][]vnet.Chunk, ns)
		if stamped {
			c.Label("chunks/stamped-earlier")
			for s := range plans {
				for i, st := range plans[s] {
					p := make([]byte, st.size)
					binary.BigEndian.PutUint32(p, uint32(s))
					binary.BigEndian.PutUint32(p[4:], uint32(i))
					for j := 8; j < len(p); j++ {
						p[j] = byte(s + i + j)
					}
					ch := vnet.VerifNewChunkUDP(srcAddr, dstAddr, p)
					vnet.VerifStamp(ch)
					pre[s] = append(pre[s], ch)
				}
			}
		}
		before := make([][]time.Time, ns)
		var wg sync.WaitGroup
		sendersDone := make(chan struct{})
		for s := range plans {
			before[s] = make([]time.Time, len(plans[s]))
			wg.Add(1)
			go func(s int) {
				defer wg.Done()
				for i, st := range plans[s] {
					p := make([]byte, st.size)
					binary.BigEndian.PutUint32(p, uint32(s))
					binary.BigEndian.PutUint32(p[4:], uint32(i))
					for j := 8; j < len(p); j++ {
						p[j] = byte(s + i + j)
					}
					ch := vnet.VerifNewChunkUDP(srcAddr, dstAddr, p)
					if stamped {
						// the chunk carries the stamp of a router it entered earlier (it was made and
						// stamped when the case began); the filter's delay counts from the arrival
						// at the filter all the same
						ch = pre[s][i]
					}
					before[s][i] = time.Now()
					vnet.VerifInbound(f, ch)
					switch st.gap {
					case 0, 1, 2:
					case 3, 4:
						for y := 0; y < st.gap; y++ {
							runtime.Gosched()
						}
					case 5:
						time.Sleep(delay / 2)
					case 6:
						time.Sleep(delay)
					default:
						time.Sleep(2 * delay)
					}
				}
			}(s)
		}
		go func() { wg.Wait(); close(sendersDone) }()
		// wait for everything to be forwarded (liveness with a generous margin)
		deadline := time.Now().Add(delay + 3*time.Second)
		crashed := ""
		for {
			mu.Lock()
			n := len(got)
			mu.Unlock()
			if n >= total {
				break
			}
			select {
			case crashed = <-runDone:
			default:
			}
			if crashed != "" || time.Now().After(deadline) {
				break
			}
			time.Sleep(100 * time.Microsecond)
		}
		if crashed == "" {
			select {
			case crashed = <-runDone:
			default:
			}
		}
		if crashed != "" {
			cancel()
			t.Fatalf("C14: DelayFilter.Run panicked (delay %v): %s", delay, crashed)
		}
		mu.Lock()
		n := len(got)
		mu.Unlock()
		if n < total {
			dump := ""
			for _, g := range sched.Snapshot() {
				for _, fr := range g.Frames {
					if strings.Contains(fr, "DelayFilter") {
						dump += g.Text + "\n\n"
						break
					}
				}
			}
			cancel()
			t.Fatalf("C14: only %d of %d chunks were forwarded %v after the last one was due (delay %v); filter goroutines:\n%s", n, total, 3*time.Second, delay, dump)
		}
		<-sendersDone
		time.Sleep(200 * time.Microsecond) // anything forwarded twice would show up now
		cancel()
		<-runDone
		mu.Lock()
		defer mu.Unlock()
		if len(got) != total {
			t.Fatalf("C14: %d chunks handed in, %d forwarded (duplicate)", total, len(got))
		}
		last := map[int]int{}
		seen := map[[2]int]bool{}
		for _, e := range got {
			if e.sender < 0 || e.sender >= ns || e.seq >= len(plans[e.sender]) {
				t.Fatalf("C14: forwarded a chunk that was never handed in")
			}
			k := [2]int{e.sender, e.seq}
			if seen[k] {
				t.Fatalf("C14: chunk %v forwarded twice", k)
			}
			seen[k] = true
			if l, ok := last[e.sender]; ok && e.seq < l {
				t.Fatalf("C14: sender %d's chunk %d was forwarded after its chunk %d (delay %v)", e.sender, e.seq, l, delay)
			}
			last[e.sender] = e.seq
			want := make([]byte, plans[e.sender][e.seq].size)
			binary.BigEndian.PutUint32(want, uint32(e.sender))
			binary.BigEndian.PutUint32(want[4:], uint32(e.seq))
			for j := 8; j < len(want); j++ {
				want[j] = byte(e.sender + e.seq + j)
			}
			if !bytes.Equal(e.data, want) {
				t.Fatalf("C14: chunk %v was modified", k)
			}
			if d := e.at.Sub(before[e.sender][e.seq]); d < delay {
				t.Fatalf("C14: chunk %v was forwarded %v after it was handed in, sooner than the delay %v", k, d, delay)
			}
		}
		c.Count("chunks", int64(total))
	})
}
