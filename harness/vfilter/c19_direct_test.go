package vfilter

import (
	"context"
	"encoding/binary"
	"fmt"
	"net"
	"sync"
	"testing"
	"time"

	"github.com/pion/transport/v3/vnet"
	"pgregory.net/rapid"

	"verifharness/ev"
)

const ruleC19Direct = "one filter (loss filter with a drawn chance; token bucket filter with a drawn rate and burst, reconfigured by a setter goroutine while traffic runs; delay filter with its Run loop; also loss in front of token bucket in front of delay) receives chunks from 2..5 goroutines at once through the NIC entry point (in-package shim), 50..600 chunks each, in front of a recording sink; binary built with -race and GORACE=halt_on_error=1; oracle: the race detector (any report is a violation) and no panic; every program has >= 2 goroutines inside one filter at the same time and counts as non-trivial; distinct by hash of the program"

// TestC19FiltersDirect complements the client programs of harness/race: there a filter is only
// ever entered by the one forwarding goroutine of its router, here several goroutines enter the
// same filter at once (a filter is a NIC, and a NIC may be handed chunks by whoever holds it).
func TestC19FiltersDirect(t *testing.T) {
	r := ev.New("C19", "filters-direct", ruleC19Direct)
	r.Essential = []string{"filter/loss", "filter/tbf", "filter/delay", "filter/chain"}
	r.MinForEssential = 40
	r.Check(t, func(t *rapid.T, c *ev.Case) {
		kind := rapid.SampledFrom([]string{"loss", "tbf", "delay", "chain"}).Draw(t, "filter")
		w := rapid.IntRange(2, 5).Draw(t, "goroutines")
		lens := make([]int, w)
		for i := range lens {
			lens[i] = rapid.IntRange(50, 600).Draw(t, "n")
		}
		chance := rapid.SampledFrom([]int{0, 10, 50, 100}).Draw(t, "chance")
		rate := rapid.SampledFrom([]int{1, 50, 1000}).Draw(t, "rateMbit") * vnet.MBit
		burst := rapid.SampledFrom([]int{2000, 20000, 200000}).Draw(t, "burst")
		sets := rapid.IntRange(0, 40).Draw(t, "sets")
		c.Label("filter/" + kind)
		c.Set("program", fmt.Sprintf("%s goroutines=%v chance=%d rate=%d burst=%d sets=%d", kind, lens, chance, rate, burst, sets))
		var mu sync.Mutex
		seen := 0
		sink := vnet.VerifNewSink(func(vnet.Chunk) { mu.Lock(); seen++; mu.Unlock() })
		ctx, cancel := context.WithCancel(context.Background())
		defer cancel()
		var entry vnet.NIC = sink
		var tbf *vnet.TokenBucketFilter
		build := func(k string) {
			switch k {
			case "loss":
				f, err := vnet.NewLossFilter(entry, chance)
				if err != nil {
					t.Fatalf("NewLossFilter: %v", err)
				}
				entry = f
			case "tbf":
				f, err := vnet.NewTokenBucketFilter(entry, vnet.TBFRate(rate), vnet.TBFMaxBurst(burst))
				if err != nil {
					t.Fatalf("NewTokenBucketFilter: %v", err)
				}
				tbf, entry = f, f
			case "delay":
				f, err := vnet.NewDelayFilter(entry, 100*time.Microsecond)
				if err != nil {
					t.Fatalf("NewDelayFilter: %v", err)
				}
				go f.Run(ctx)
				entry = f
			}
		}
		if kind == "chain" {
			build("delay")
			build("tbf")
			build("loss")
		} else {
			build(kind)
		}
		if tbf != nil {
			defer tbf.Close() //nolint:errcheck
		}
		var wg sync.WaitGroup
		start := make(chan struct{})
		panics := make([]string, w+1)
		for g := 0; g < w; g++ {
			wg.Add(1)
			go func(g int) {
				defer wg.Done()
				defer func() {
					if p := recover(); p != nil {
						panics[g] = fmt.Sprint(p)
					}
				}()
				<-start
				src := &net.UDPAddr{IP: srcAddr.IP, Port: 1000 + g}
				for s := 0; s < lens[g]; s++ {
					p := make([]byte, 8+s%64)
					binary.BigEndian.PutUint32(p, uint32(g))
					binary.BigEndian.PutUint32(p[4:], uint32(s))
					vnet.VerifInbound(entry, vnet.VerifNewChunkUDP(src, dstAddr, p))
				}
			}(g)
		}
		if tbf != nil && sets > 0 {
			wg.Add(1)
			go func() {
				defer wg.Done()
				<-start
				for i := 0; i < sets; i++ {
					switch i % 3 {
					case 0:
						tbf.Set(vnet.TBFRate((1 + i) * vnet.MBit))
					case 1:
						tbf.Set(vnet.TBFMaxBurst(4000 * (1 + i)))
					default:
						tbf.Set(vnet.TBFRate(rate), vnet.TBFMaxBurst(burst))
					}
				}
			}()
		}
		close(start)
		wg.Wait()
		for g, p := range panics {
			if p != "" {
				t.Fatalf("C19: goroutine %d panicked inside the %s filter under concurrent arrivals: %s", g, kind, p)
			}
		}
		mu.Lock()
		c.Set("forwarded", seen)
		mu.Unlock()
		c.NonTrivial()
	})
}
