// Package sched is the controlled scheduler (DESIGN.md §2.3). The files under
// test carry a verifYield call before every lock, channel, select, WaitGroup
// and atomic operation (inserted by tools/instrument). A Session serialises
// the registered goroutines (tasks): a task arriving at a yield parks until
// the controller grants it one step; which task advances is decided by a
// Chooser, normally from rapid draws, so that a schedule is an ordinary
// generated, shrinkable value.
package sched

import (
	"bytes"
	"fmt"
	"os"
	"path/filepath"
	"runtime"
	"sort"
	"strconv"
	"strings"
	"sync"
	"sync/atomic"
	"time"
)

// TaskState is the controller's view of a task.
type TaskState int

const (
	Running  TaskState = iota // granted (or woken), not yet back at a yield
	AtYield                   // parked at a yield, can be granted
	Blocked                   // granted, and seen parked in a real blocking operation
	Finished                  // function returned
)

func (s TaskState) String() string {
	return [...]string{"running", "at-yield", "blocked", "finished"}[s]
}

// Task is one schedulable goroutine.
type Task struct {
	ID      int
	Name    string
	Adopted bool // created by the code under test (go statement), not by the harness

	gid       int64
	state     TaskState
	label     string // yield it is parked at (AtYield) or passed last
	grant     chan struct{}
	steps     int
	passed    []string // labels of the yields it passed (bounded)
	waitState string   // goroutine wait state when Blocked
	waitFrame string   // innermost non-runtime frame when Blocked
	panicked  any
}

// Kind returns the operation kind of the yield the task is parked at.
func (t *Task) Kind() string {
	if i := strings.LastIndexByte(t.label, ':'); i >= 0 {
		return t.label[i+1:]
	}
	return t.label
}

// Label returns the yield label the task is parked at / passed last.
func (t *Task) Label() string { return t.label }

// State returns the controller's view of the task.
func (t *Task) State() TaskState { return t.state }

// Passed returns the labels of the yields the task went through.
func (t *Task) Passed() []string { return t.passed }

// WaitInfo describes where a Blocked task is parked.
func (t *Task) WaitInfo() (state, frame string) { return t.waitState, t.waitFrame }

// Panicked returns the recovered panic value of a harness task, if any.
func (t *Task) Panicked() any { return t.panicked }

// Chooser decides which enabled task advances. blockedOthers tells how many
// tasks are really blocked (for strategies that want to wait for wake-ups).
type Chooser interface {
	Pick(s *Session, enabled []*Task) *Task
}

// Session is one controlled execution.
type Session struct {
	mu       sync.Mutex
	tasks    []*Task
	byGID    map[int64]*Task
	spawning int // harness tasks started by Go that have not registered yet
	adopting int // go statements executed by tasks whose goroutine has not called Adopt yet
	event    chan struct{}
	pass     atomic.Bool // pass-through: yields return at once
	trace    []string
	steps    int

	MaxSteps int
	// QuiesceGap is the time between the two whole-process snapshots that
	// must both show every goroutine parked before the run is declared
	// over. Zero: a single confirmation (scenarios without timers/sockets).
	QuiesceGap time.Duration
	// Horizon is waited out once at the end when runtime timers may still be
	// armed by the code under test.
	Horizon time.Duration
	// WorkDir receives goroutine dumps on watchdog expiry.
	WorkDir string

	Discarded   bool // step limit hit with tasks still enabled
	ctlGID      int64
	extraIgnore map[int64]bool
}

// New creates a session; the calling goroutine becomes the controller.
func New() *Session {
	return &Session{
		byGID:    map[int64]*Task{},
		event:    make(chan struct{}, 1),
		MaxSteps: 2000,
		WorkDir:  os.Getenv("VERIF_WORK"),
		ctlGID:   GoID(),
	}
}

// GoID returns the id of the calling goroutine.
func GoID() int64 {
	var buf [64]byte
	n := runtime.Stack(buf[:], false)
	// "goroutine 123 [running]:"
	b := buf[:n]
	b = b[len("goroutine "):]
	i := bytes.IndexByte(b, ' ')
	id, _ := strconv.ParseInt(string(b[:i]), 10, 64)
	return id
}

func (s *Session) notify() {
	select {
	case s.event <- struct{}{}:
	default:
	}
}

// Go starts f as a harness task. It parks at a "start" yield first.
func (s *Session) Go(name string, f func()) *Task {
	t := &Task{Name: name, grant: make(chan struct{}, 1), state: Running}
	s.mu.Lock()
	t.ID = len(s.tasks)
	s.tasks = append(s.tasks, t)
	s.spawning++
	s.mu.Unlock()
	go func() {
		gid := GoID()
		s.mu.Lock()
		t.gid = gid
		s.byGID[gid] = t
		s.spawning--
		s.mu.Unlock()
		defer func() {
			if p := recover(); p != nil {
				t.panicked = fmt.Sprintf("%v\n%s", p, debugStack())
			}
			s.mu.Lock()
			t.state = Finished
			delete(s.byGID, gid)
			s.mu.Unlock()
			s.notify()
		}()
		s.Yield(name + ":start")
		f()
	}()
	return t
}

func debugStack() string {
	buf := make([]byte, 16<<10)
	return string(buf[:runtime.Stack(buf, false)])
}

// Spawn is called by instrumented code right before a go statement.
func (s *Session) Spawn() {
	if s.pass.Load() {
		return
	}
	s.mu.Lock()
	if _, ok := s.byGID[GoID()]; ok {
		s.adopting++
	}
	s.mu.Unlock()
}

// Adopt is called first thing in a goroutine started by instrumented code.
// Only goroutines started by a task become tasks.
func (s *Session) Adopt(label string) {
	if s.pass.Load() {
		return
	}
	s.mu.Lock()
	if s.adopting == 0 {
		s.mu.Unlock()
		return
	}
	// A goroutine started by a non-task while a task's go statement is pending
	// would be mis-adopted; the harness never runs such non-task code concurrently.
	s.adopting--
	gid := GoID()
	t := &Task{Name: label, Adopted: true, grant: make(chan struct{}, 1), state: Running, gid: gid}
	t.ID = len(s.tasks)
	s.tasks = append(s.tasks, t)
	s.byGID[gid] = t
	s.mu.Unlock()
	s.Yield(label + ":adopt")
}

// Retire is deferred in adopted goroutines; p is the recovered panic value
// of that goroutine (nil normally).
func (s *Session) Retire(p any) {
	gid := GoID()
	s.mu.Lock()
	t, ok := s.byGID[gid]
	if ok && t.Adopted {
		t.state = Finished
		delete(s.byGID, gid)
		if p != nil {
			t.panicked = fmt.Sprintf("%v\n%s", p, debugStack())
		}
	}
	s.mu.Unlock()
	if p != nil && !(ok && t.Adopted) {
		panic(p) // not ours: let it crash as it would have
	}
	s.notify()
}

// Yield parks the calling task until the controller grants it a step.
func (s *Session) Yield(label string) {
	if s.pass.Load() {
		return
	}
	gid := GoID()
	s.mu.Lock()
	t, ok := s.byGID[gid]
	if !ok || s.pass.Load() {
		s.mu.Unlock()
		return
	}
	t.state = AtYield
	t.label = label
	s.mu.Unlock()
	s.notify()
	<-t.grant
}

// Tasks returns all tasks.
func (s *Session) Tasks() []*Task {
	s.mu.Lock()
	defer s.mu.Unlock()
	return append([]*Task(nil), s.tasks...)
}

// Trace returns the sequence of granted steps ("task@label").
func (s *Session) Trace() []string { return s.trace }

// Steps returns the number of granted steps.
func (s *Session) Steps() int { return s.steps }

var parkedStates = map[string]bool{
	"chan receive": true, "chan send": true, "select": true, "select (no cases)": true,
	"sync.Mutex.Lock": true, "sync.RWMutex.RLock": true, "sync.RWMutex.Lock": true,
	"semacquire": true, "sync.WaitGroup.Wait": true, "sync.Cond.Wait": true,
	"IO wait": true, "chan receive (nil chan)": true, "chan send (nil chan)": true,
	"finalizer wait": true, "GC worker (idle)": true, "GC sweep wait": true, "GC scavenge wait": true,
	"force gc (idle)": true, "debug call": false, "trace reader (blocked)": true,
	"sync.Mutex.Unlock": false, "cleanup wait": true,
}

// GInfo is one goroutine of a snapshot.
type GInfo struct {
	ID     int64
	State  string
	Frames []string // function names, innermost first
	Text   string
}

// Snapshot parses runtime.Stack(all).
func Snapshot() []GInfo {
	buf := make([]byte, 256<<10)
	for {
		n := runtime.Stack(buf, true)
		if n < len(buf) {
			buf = buf[:n]
			break
		}
		buf = make([]byte, 2*len(buf))
	}
	var res []GInfo
	for _, blk := range strings.Split(string(buf), "\n\n") {
		if !strings.HasPrefix(blk, "goroutine ") {
			continue
		}
		nl := strings.IndexByte(blk, '\n')
		head := blk
		if nl >= 0 {
			head = blk[:nl]
		}
		rest := head[len("goroutine "):]
		sp := strings.IndexByte(rest, ' ')
		if sp < 0 {
			continue
		}
		id, _ := strconv.ParseInt(rest[:sp], 10, 64)
		st := rest[sp+1:]
		st = strings.TrimSuffix(strings.TrimPrefix(st, "["), "]:")
		if i := strings.IndexByte(st, ','); i >= 0 {
			st = st[:i]
		}
		g := GInfo{ID: id, State: st, Text: blk}
		if nl >= 0 {
			for _, l := range strings.Split(blk[nl+1:], "\n") {
				if l == "" || l[0] == '\t' || strings.HasPrefix(l, "created by ") {
					continue
				}
				if i := strings.LastIndexByte(l, '('); i > 0 {
					l = l[:i]
				}
				g.Frames = append(g.Frames, l)
			}
		}
		res = append(res, g)
	}
	return res
}

func (g *GInfo) parked() bool { return parkedStates[g.State] }

func (g *GInfo) userFrame() string {
	for _, f := range g.Frames {
		if strings.HasPrefix(f, "runtime.") || strings.HasPrefix(f, "sync.") || strings.HasPrefix(f, "internal/") ||
			strings.HasPrefix(f, "time.") || strings.HasPrefix(f, "net.") || strings.HasPrefix(f, "os.") || strings.HasPrefix(f, "syscall.") {
			continue
		}
		return f
	}
	if len(g.Frames) > 0 {
		return g.Frames[0]
	}
	return ""
}

func (s *Session) watchdog(what string, since time.Time) {
	if time.Since(since) < 15*time.Second {
		return
	}
	dump := ""
	for _, g := range Snapshot() {
		dump += g.Text + "\n\n"
	}
	if s.WorkDir != "" {
		_ = os.WriteFile(filepath.Join(s.WorkDir, "watchdog.dump"), []byte(dump), 0o644)
	}
	fmt.Fprintf(os.Stderr, "VERIF-INFRA: scheduler watchdog: %s did not settle within 15s\ntrace: %v\n%s\n", what, s.trace, dump)
	os.Exit(2)
}

// settle waits until every task is at a yield, finished, or really blocked,
// and no spawn is pending. It returns the enabled tasks.
func (s *Session) settle() []*Task {
	start := time.Now()
	spins := 0
	for {
		s.mu.Lock()
		pending := s.spawning + s.adopting
		unsettled := 0
		for _, t := range s.tasks {
			if t.state == Running || t.state == Blocked {
				unsettled++
			}
		}
		s.mu.Unlock()
		if pending == 0 && unsettled == 0 {
			break
		}
		// give running tasks a moment to reach their next yield or to park
		if spins < 60 {
			spins++
			select {
			case <-s.event:
				spins = 0
			default:
				runtime.Gosched()
			}
			continue
		}
		if pending == 0 {
			// are the unsettled ones parked in a real blocking operation?
			snap := Snapshot()
			byID := map[int64]*GInfo{}
			for i := range snap {
				byID[snap[i].ID] = &snap[i]
			}
			all := true
			s.mu.Lock()
			for _, t := range s.tasks {
				if t.state != Running && t.state != Blocked {
					continue
				}
				g, ok := byID[t.gid]
				if ok && g.parked() && !inYield(g) {
					t.state = Blocked
					t.waitState = g.State
					t.waitFrame = g.userFrame()
				} else {
					t.state = Running
					all = false
				}
			}
			s.mu.Unlock()
			if all {
				break
			}
		}
		spins = 30
		select {
		case <-s.event:
		default:
			time.Sleep(20 * time.Microsecond)
		}
		s.watchdog("settle", start)
	}
	s.mu.Lock()
	defer s.mu.Unlock()
	var enabled []*Task
	for _, t := range s.tasks {
		if t.state == AtYield {
			enabled = append(enabled, t)
		}
	}
	return enabled
}

// inYield reports whether the goroutine is parked in Session.Yield (waiting
// for a grant) rather than in an operation of the code under test.
func inYield(g *GInfo) bool {
	for _, f := range g.Frames {
		if strings.HasSuffix(f, "sched.(*Session).Yield") {
			return true
		}
	}
	return false
}

// quiescent confirms the terminal state: nobody enabled, and (with a gap)
// two snapshots showing every goroutine parked with no task arriving in
// between. Returns false if some task became enabled again.
func (s *Session) quiescent() bool {
	start := time.Now()
	for {
		if len(s.settle()) > 0 {
			return false
		}
		if s.QuiesceGap == 0 {
			return true
		}
		if !s.allParked() {
			time.Sleep(200 * time.Microsecond)
			s.watchdog("quiescence", start)
			continue
		}
		// drain stale events
		select {
		case <-s.event:
		default:
		}
		time.Sleep(s.QuiesceGap)
		select {
		case <-s.event:
			continue // something arrived
		default:
		}
		if !s.allParked() {
			continue
		}
		if len(s.settle()) > 0 {
			return false
		}
		return true
	}
}

// harnessHelper: goroutines of the harness itself that sleep and wake up for
// ever without touching the code under test (the stall detector of package ev).
func harnessHelper(g GInfo) bool {
	for _, f := range g.Frames {
		if strings.Contains(f, "verifharness/ev.watchStalls") {
			return true
		}
	}
	return false
}

func (s *Session) allParked() bool {
	for _, g := range Snapshot() {
		if g.ID == s.ctlGID {
			continue
		}
		if g.State == "syscall" && len(g.Frames) > 0 && strings.Contains(g.Frames[0], "os/signal") {
			continue
		}
		if harnessHelper(g) {
			continue
		}
		if !g.parked() {
			// goroutines of the testing framework and runtime helpers that
			// are runnable for a moment make us wait, never decide anything
			return false
		}
	}
	return true
}

// Run drives the tasks until nobody can advance (true quiescence), the step
// limit is hit (Discarded), or the chooser returns nil (stop early).
func (s *Session) Run(ch Chooser) {
	horizonWaited := false
	for {
		enabled := s.settle()
		if len(enabled) == 0 {
			if !s.quiescent() {
				continue
			}
			if s.Horizon > 0 && !horizonWaited {
				horizonWaited = true
				time.Sleep(s.Horizon)
				continue
			}
			return
		}
		if s.steps >= s.MaxSteps {
			s.Discarded = true
			return
		}
		sort.Slice(enabled, func(i, j int) bool { return enabled[i].ID < enabled[j].ID })
		t := ch.Pick(s, enabled)
		if t == nil {
			return
		}
		s.Grant(t)
	}
}

// Grant lets task t (which must be AtYield) advance to its next yield.
func (s *Session) Grant(t *Task) {
	s.mu.Lock()
	if t.state != AtYield {
		s.mu.Unlock()
		return
	}
	t.state = Running
	t.steps++
	s.steps++
	if len(t.passed) < 400 {
		t.passed = append(t.passed, t.label)
	}
	s.trace = append(s.trace, t.Name+"@"+short(t.label))
	s.mu.Unlock()
	t.grant <- struct{}{}
}

func short(label string) string {
	return label
}

// BlockedTasks returns the tasks that are really blocked (terminal state).
func (s *Session) BlockedTasks() []*Task {
	s.mu.Lock()
	defer s.mu.Unlock()
	var r []*Task
	for _, t := range s.tasks {
		if t.state == Blocked {
			r = append(r, t)
		}
	}
	return r
}

// CountBlocked returns the number of really blocked tasks right now (as of
// the last settle).
func (s *Session) CountBlocked() int { return len(s.BlockedTasks()) }

// Abort switches to pass-through: all parked tasks are released and later
// yields return immediately. It then waits (bounded) for the tasks to finish
// or block for real. Call release() afterwards to unblock stragglers, then
// Drain again. Safe to call more than once.
func (s *Session) Abort() {
	s.pass.Store(true)
	s.mu.Lock()
	for _, t := range s.tasks {
		if t.state == AtYield {
			t.state = Running
			select {
			case t.grant <- struct{}{}:
			default:
			}
		}
	}
	s.mu.Unlock()
}

// Drain waits up to d for all tasks to finish; returns the number still alive.
func (s *Session) Drain(d time.Duration) int {
	deadline := time.Now().Add(d)
	for {
		s.mu.Lock()
		alive := 0
		for _, t := range s.tasks {
			if t.state != Finished {
				alive++
			}
		}
		s.mu.Unlock()
		if alive == 0 || time.Now().After(deadline) {
			return alive
		}
		select {
		case <-s.event:
		case <-time.After(100 * time.Microsecond):
		}
	}
}

// Describe renders the terminal state for failure messages.
func (s *Session) Describe() string {
	s.mu.Lock()
	defer s.mu.Unlock()
	var b strings.Builder
	for _, t := range s.tasks {
		fmt.Fprintf(&b, "  task %d %-22s %-9s last yield %-28s", t.ID, t.Name, t.state, t.label)
		if t.state == Blocked {
			fmt.Fprintf(&b, " parked in [%s] at %s", t.waitState, t.waitFrame)
		}
		b.WriteString("\n")
	}
	fmt.Fprintf(&b, "  trace (%d steps): %s\n", len(s.trace), strings.Join(s.trace, " · "))
	return b.String()
}
