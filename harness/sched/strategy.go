package sched

import (
	"strings"

	"pgregory.net/rapid"
)

// Strategy names (drawn per case).
const (
	Uniform = iota
	RunLength
	HoldAtBlock
	Priority
	LateSet
	NumStrategies
)

var StrategyNames = [...]string{"uniform", "run-length", "hold-at-block", "priority", "late-set"}

// blockingKinds are yield kinds whose next operation may park the task.
var blockingKinds = map[string]bool{"select": true, "recv": true, "wait": true, "send": true}

// RapidChooser draws every scheduling decision from rapid.
type RapidChooser struct {
	T        *rapid.T
	Strategy int

	cur       *Task // run-length
	left      int
	prio      map[int]int // priority
	changes   map[int]bool
	late      map[int]bool // late-set: tasks that run only when nobody else can
	lateClass map[string]bool
	perTask   bool
}

// NewRapidChooser draws the strategy.
func NewRapidChooser(t *rapid.T) *RapidChooser {
	return &RapidChooser{T: t, Strategy: rapid.IntRange(0, NumStrategies-1).Draw(t, "strategy")}
}

func (c *RapidChooser) pickUniform(enabled []*Task) *Task {
	if len(enabled) == 1 {
		return enabled[0]
	}
	return enabled[rapid.IntRange(0, len(enabled)-1).Draw(c.T, "pick")]
}

// Pick implements Chooser.
func (c *RapidChooser) Pick(s *Session, enabled []*Task) *Task {
	switch c.Strategy {
	case RunLength:
		if c.cur != nil && c.left > 0 {
			for _, t := range enabled {
				if t == c.cur {
					c.left--
					return t
				}
			}
		}
		c.cur = c.pickUniform(enabled)
		c.left = rapid.IntRange(0, 11).Draw(c.T, "burst")
		return c.cur
	case HoldAtBlock:
		// withhold tasks about to perform a possibly blocking operation
		// while anybody else can run; release them in a drawn order
		var free []*Task
		for _, t := range enabled {
			if !aboutToBlock(t) {
				free = append(free, t)
			}
		}
		if len(free) > 0 {
			return c.pickUniform(free)
		}
		return c.pickUniform(enabled)
	case LateSet:
		// a drawn subset of the tasks is starved: everybody else first runs up
		// to the point where it would block (hold-at-block), only then do the
		// late tasks run (to completion, uniformly), then the held ones are
		// released. "All readers are between their emptiness check and the
		// select, then every write and the Close happen, then the readers go
		// on" is one draw of this strategy.
		if c.late == nil {
			c.late = map[int]bool{}
			c.lateClass = map[string]bool{}
			c.perTask = rapid.IntRange(0, 9).Draw(c.T, "latePerTask") < 3
		}
		for _, t := range enabled {
			if _, ok := c.late[t.ID]; !ok {
				// usually a whole class of tasks (readers, writers, closer ...:
				// the task name without its trailing digits) is late together
				cl := strings.TrimRight(t.Name, "0123456789.")
				if _, seen := c.lateClass[cl]; !seen {
					c.lateClass[cl] = rapid.Bool().Draw(c.T, "lateClass")
				}
				if c.perTask {
					c.late[t.ID] = rapid.IntRange(0, 9).Draw(c.T, "late") < 4
				} else {
					c.late[t.ID] = c.lateClass[cl]
				}
			}
		}
		var early, lateFree []*Task
		for _, t := range enabled {
			switch {
			case aboutToBlock(t):
			case c.late[t.ID]:
				lateFree = append(lateFree, t)
			default:
				early = append(early, t)
			}
		}
		if len(early) > 0 {
			return c.pickUniform(early)
		}
		if len(lateFree) > 0 {
			return c.pickUniform(lateFree)
		}
		return c.pickUniform(enabled)
	case Priority:
		if c.prio == nil {
			c.prio = map[int]int{}
			c.changes = map[int]bool{}
			for i := 0; i < 3; i++ {
				c.changes[rapid.IntRange(1, 60).Draw(c.T, "change")] = true
			}
		}
		for _, t := range enabled {
			if _, ok := c.prio[t.ID]; !ok {
				c.prio[t.ID] = rapid.IntRange(0, 1000).Draw(c.T, "prio")
			}
		}
		best := enabled[0]
		for _, t := range enabled[1:] {
			if c.prio[t.ID] > c.prio[best.ID] {
				best = t
			}
		}
		if c.changes[s.Steps()] {
			c.prio[best.ID] = -s.Steps() // demote below everything seen so far
		}
		return best
	default:
		return c.pickUniform(enabled)
	}
}

// ScriptChooser replays a fixed list of task names (regression tests); when
// the script is exhausted, or names a task that is not enabled, it falls
// back to the lowest task id.
type ScriptChooser struct {
	Script []string
	pos    int
}

// Pick implements Chooser.
func (c *ScriptChooser) Pick(s *Session, enabled []*Task) *Task {
	for c.pos < len(c.Script) {
		name := c.Script[c.pos]
		c.pos++
		for _, t := range enabled {
			if t.Name == name {
				return t
			}
		}
	}
	return enabled[0]
}

// aboutToBlock: the task's next operation may park it -- it is at the yield
// of a blocking kind, or it has passed such a yield and is now inside a call
// made while the operands of that select/receive are evaluated (a yield of
// another file, e.g. readDeadline.Done() inside Buffer.Read's select).
func aboutToBlock(t *Task) bool {
	if blockingKinds[t.Kind()] {
		return true
	}
	p := t.Passed()
	if len(p) == 0 {
		return false
	}
	last := p[len(p)-1]
	k := last
	if i := strings.LastIndexByte(last, ':'); i >= 0 {
		k = last[i+1:]
	}
	if !blockingKinds[k] {
		return false
	}
	return fileOf(last) != fileOf(t.Label())
}

func fileOf(label string) string {
	if i := strings.IndexByte(label, ':'); i >= 0 {
		return label[:i]
	}
	return label
}
