package sched

import (
	"pgregory.net/rapid"
)

// Strategy names (drawn per case).
const (
	Uniform = iota
	RunLength
	HoldAtBlock
	Priority
	NumStrategies
)

var StrategyNames = [...]string{"uniform", "run-length", "hold-at-block", "priority"}

// blockingKinds are yield kinds whose next operation may park the task.
var blockingKinds = map[string]bool{"select": true, "recv": true, "wait": true, "send": true}

// RapidChooser draws every scheduling decision from rapid.
type RapidChooser struct {
	T        *rapid.T
	Strategy int

	cur     *Task // run-length
	left    int
	prio    map[int]int // priority
	changes map[int]bool
}

// NewRapidChooser draws the strategy.
func NewRapidChooser(t *rapid.T) *RapidChooser {
	return &RapidChooser{T: t, Strategy: rapid.IntRange(0, NumStrategies-1).Draw(t, "strategy")}
}

func (c *RapidChooser) pickUniform(enabled []*Task) *Task {
	if len(enabled) == 1 {
		return enabled[0]
	}
	return enabled[rapid.IntRange(0, len(enabled)-1).Draw(c.T, "pick")]
}

// Pick implements Chooser.
func (c *RapidChooser) Pick(s *Session, enabled []*Task) *Task {
	switch c.Strategy {
	case RunLength:
		if c.cur != nil && c.left > 0 {
			for _, t := range enabled {
				if t == c.cur {
					c.left--
					return t
				}
			}
		}
		c.cur = c.pickUniform(enabled)
		c.left = rapid.IntRange(0, 11).Draw(c.T, "burst")
		return c.cur
	case HoldAtBlock:
		// withhold tasks about to perform a possibly blocking operation
		// while anybody else can run; release them in a drawn order
		var free []*Task
		for _, t := range enabled {
			if !blockingKinds[t.Kind()] {
				free = append(free, t)
			}
		}
		if len(free) > 0 {
			return c.pickUniform(free)
		}
		return c.pickUniform(enabled)
	case Priority:
		if c.prio == nil {
			c.prio = map[int]int{}
			c.changes = map[int]bool{}
			for i := 0; i < 3; i++ {
				c.changes[rapid.IntRange(1, 60).Draw(c.T, "change")] = true
			}
		}
		for _, t := range enabled {
			if _, ok := c.prio[t.ID]; !ok {
				c.prio[t.ID] = rapid.IntRange(0, 1000).Draw(c.T, "prio")
			}
		}
		best := enabled[0]
		for _, t := range enabled[1:] {
			if c.prio[t.ID] > c.prio[best.ID] {
				best = t
			}
		}
		if c.changes[s.Steps()] {
			c.prio[best.ID] = -s.Steps() // demote below everything seen so far
		}
		return best
	default:
		return c.pickUniform(enabled)
	}
}

// ScriptChooser replays a fixed list of task names (regression tests); when
// the script is exhausted, or names a task that is not enabled, it falls
// back to the lowest task id.
type ScriptChooser struct {
	Script []string
	pos    int
}

// Pick implements Chooser.
func (c *ScriptChooser) Pick(s *Session, enabled []*Task) *Task {
	for c.pos < len(c.Script) {
		name := c.Script[c.pos]
		c.pos++
		for _, t := range enabled {
			if t.Name == name {
				return t
			}
		}
	}
	return enabled[0]
}
