package bridge

import (
	"testing"
	"time"

	"github.com/pion/transport/v3/test"
)

func collect(t *testing.T, br *test.Bridge, dir int, want int) [][]byte {
	t.Helper()
	dst := br.GetConn1()
	if dir == 1 {
		dst = br.GetConn0()
	}
	col := startReader(dst, 64)
	br.Process()
	deadline := time.Now().Add(2 * time.Second)
	for len(col.snapshot()) < want && time.Now().Before(deadline) {
		time.Sleep(100 * time.Microsecond)
	}
	time.Sleep(2 * time.Millisecond)
	_ = br.GetConn0().Close()
	_ = br.GetConn1().Close()
	for i := 0; i < 1000; i++ {
		br.Tick()
		select {
		case <-col.done:
			return col.snapshot()
		default:
			time.Sleep(20 * time.Microsecond)
		}
	}
	return col.snapshot()
}

// C18-reorder-stack (fixed by b050a13).
func TestRegressC18_ReorderTwice(t *testing.T) {
	for dir := 0; dir < 2; dir++ {
		br := test.NewBridge()
		src := br.GetConn0()
		if dir == 1 {
			src = br.GetConn1()
		}
		br.ReorderNextNWrites(dir, 2)
		_, _ = src.Write([]byte("A"))
		_, _ = src.Write([]byte("B"))
		br.ReorderNextNWrites(dir, 2)
		_, _ = src.Write([]byte("C"))
		_, _ = src.Write([]byte("D"))
		got := collect(t, br, dir, 4)
		s := ""
		for _, g := range got {
			s += string(g)
		}
		if s != "BADC" {
			t.Fatalf("C18: direction %d: two reorder batches AB, CD delivered %q, want \"BADC\"", dir, s)
		}
	}
}

// C18-reorder-one (fixed by ed46194).
func TestRegressC18_ReorderOne(t *testing.T) {
	for dir := 0; dir < 2; dir++ {
		br := test.NewBridge()
		src := br.GetConn0()
		if dir == 1 {
			src = br.GetConn1()
		}
		br.ReorderNextNWrites(dir, 1)
		_, _ = src.Write([]byte("A"))
		_, _ = src.Write([]byte("B"))
		got := collect(t, br, dir, 2)
		s := ""
		for _, g := range got {
			s += string(g)
		}
		if s != "AB" {
			t.Fatalf("C18: direction %d: ReorderNextNWrites(1) then A, B delivered %q, want \"AB\"", dir, s)
		}
	}
}
