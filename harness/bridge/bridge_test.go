// Package bridge holds the checks for C18: test.Bridge against a model of
// the scripted impairments, and dpipe against a FIFO-per-direction model.
package bridge

import (
	"bytes"
	"fmt"
	"net"
	"sync"
	"testing"
	"time"

	"github.com/pion/transport/v3/dpipe"
	"github.com/pion/transport/v3/test"
	"pgregory.net/rapid"

	"verifharness/ev"
)

// message layout: byte0 class (filter predicate), bytes1..3 serial, filler.
func mkMsg(class, serial, size int) []byte {
	p := make([]byte, size)
	if size >= 4 {
		p[0] = byte(class)
		p[1], p[2], p[3] = byte(serial>>16), byte(serial>>8), byte(serial)
		for i := 4; i < size; i++ {
			p[i] = byte(serial*7 + i*13)
		}
	}
	return p
}

type dirModel struct {
	queue    [][]byte
	stack    [][]byte
	dropN    int
	reorderN int
	filter   int // -1 none, else rejected class
	strict   bool
	written  map[int][]byte // serial -> message (for the weak oracle)
	empties  int            // zero-length messages written
	expect   [][]byte       // what the reader must have received so far (strict)
	nReorder int
	// completeness bookkeeping that stays valid under the weak oracle
	mayDrop      map[int]bool // serial -> the script may have dropped it (drop counter, filter)
	unknownDrops int          // messages removed by Drop while the model queue was out of sync
	emptyMayDrop int
}

func (d *dirModel) write(msg []byte, serial int) string {
	if len(msg) == 0 {
		d.empties++
	} else {
		d.written[serial] = msg
	}
	rejected := d.filter >= 0 && len(msg) >= 1 && int(msg[0]) == d.filter
	if d.dropN > 0 || rejected {
		if len(msg) == 0 {
			d.emptyMayDrop++
		} else {
			d.mayDrop[serial] = true
		}
	}
	switch {
	case d.dropN > 0:
		d.dropN--
		if d.reorderN > 0 {
			d.strict = false // does a dropped write count for the reorder batch? unspecified
			return "dropped(ambiguous: reorder pending)"
		}
		return "dropped"
	case d.reorderN > 0:
		d.reorderN--
		d.stack = append(d.stack, msg)
		if rejected {
			d.strict = false // is the filter applied to withheld messages? unspecified
		}
		if d.reorderN == 0 {
			for i := len(d.stack) - 1; i >= 0; i-- {
				d.queue = append(d.queue, d.stack[i])
			}
			d.stack = nil
			return "withheld; batch released reversed"
		}
		return "withheld"
	case rejected:
		return "filtered"
	}
	d.queue = append(d.queue, msg)
	return "queued"
}

type collector struct {
	mu   sync.Mutex
	got  [][]byte
	done chan struct{}
	err  error // what ended the reader
}

// ended reports the error that made the reader return, if it has.
func (c *collector) ended() error {
	select {
	case <-c.done:
		c.mu.Lock()
		defer c.mu.Unlock()
		return c.err
	default:
		return nil
	}
}

func startReader(c net.Conn, bufSize int) *collector {
	col := &collector{done: make(chan struct{})}
	go func() {
		defer close(col.done)
		buf := make([]byte, bufSize)
		for {
			n, err := c.Read(buf)
			if err != nil {
				col.mu.Lock()
				col.err = err
				col.mu.Unlock()
				return
			}
			cp := append([]byte(nil), buf[:n]...)
			col.mu.Lock()
			col.got = append(col.got, cp)
			col.mu.Unlock()
		}
	}()
	return col
}

func (c *collector) snapshot() [][]byte {
	c.mu.Lock()
	defer c.mu.Unlock()
	return append([][]byte(nil), c.got...)
}

func cut(m []byte, n int) []byte {
	if len(m) > n {
		return m[:n]
	}
	return m
}

const ruleBridge = "rapid-drawn history over one test.Bridge with a collecting reader on each endpoint (reader buffer 4 or 4096 bytes): write(dir, 0 or 4..2000 bytes, class byte for the filter), DropNextNWrites(0..3), ReorderNextNWrites(1..4, also repeatedly), Drop(offset<=len, n), Reorder, Filter(reject class k | nil), Tick, Process, and in a quarter of the histories one run of 60..140 writes in one direction; in a quarter of the histories the readers start at a drawn later step and every Tick before that must return 0 and leave both queues as they are; a model applies the script (drop counter, then reorder batch, then filter) to two queues; after every Process the readers must have received exactly the model's sequence (cut to the reader's buffer), and over the whole run nothing is duplicated or invented; where the documentation leaves the combination unspecified (drop counter and reorder batch both armed, filter vs withheld message, re-arming a half-filled batch) the direction falls back to the weak oracle (sub-multiset, integrity) only; non-trivial = >=2 completed reorder batches on one direction, or a reorder batch combined with drop/filter/Drop/Reorder; distinct by hash of the step list"

func TestC18Bridge(t *testing.T) {
	r := ev.New("C18", "bridge", ruleBridge)
	r.Essential = []string{"reorder-batches>=2", "reorder/n=1", "op/Drop", "op/Reorder", "op/Filter", "truncating-reader", "idle-tick", "readers-started-late", "long-run-of-writes"}
	r.MinForEssential = 300
	r.Check(t, func(t *rapid.T, c *ev.Case) {
		br := test.NewBridge()
		bufSize := [2]int{4096, 4096}
		for i := range bufSize {
			if rapid.IntRange(0, 3).Draw(t, "smallbuf") == 0 {
				bufSize[i] = 4
				c.Label("truncating-reader")
			}
		}
		conns := [2]net.Conn{br.GetConn0(), br.GetConn1()}
		// dir d: written on conn d, read on conn 1-d
		// In a quarter of the histories nobody reads at first: "If there's no reader, it [Tick]
		// will return immediately" - it hands nothing over and the queues stay as they are, so
		// that Drop and Reorder still act on the messages the test sees queued. The collecting
		// readers start at a drawn step.
		var cols [2]*collector
		startReaders := func() {
			if cols[0] == nil {
				cols = [2]*collector{startReader(conns[1], bufSize[1]), startReader(conns[0], bufSize[0])}
			}
		}
		lateAt := -1
		if rapid.IntRange(0, 3).Draw(t, "lateReaders") == 0 {
			lateAt = rapid.IntRange(1, 30).Draw(t, "lateAt")
		} else {
			startReaders()
		}
		idleTick := func(step int) {
			before := [2]int{br.Len(0), br.Len(1)}
			k := br.Tick()
			if k != 0 || br.Len(0) != before[0] || br.Len(1) != before[1] {
				t.Fatalf("C18: step %d: Tick with no reader waiting on either endpoint returned %d and changed the queue lengths from %v to [%d %d]; it must hand nothing over", step, k, before, br.Len(0), br.Len(1))
			}
			c.Label("idle-tick")
		}
		rbuf := [2]int{bufSize[1], bufSize[0]}
		dm := [2]*dirModel{}
		for d := range dm {
			dm[d] = &dirModel{filter: -1, strict: true, written: map[int][]byte{}, mayDrop: map[int]bool{}}
		}
		c.Set("reader_buf", fmt.Sprint(rbuf))
		serial := 0
		defer func() {
			// shut down: drain, close both ends, tick until the readers are gone
			startReaders()
			for d := 0; d < 2; d++ {
				br.Drop(d, 0, br.Len(d))
			}
			_ = conns[0].Close()
			_ = conns[1].Close()
			deadline := time.Now().Add(2 * time.Second)
			for time.Now().Before(deadline) {
				br.Tick()
				select {
				case <-cols[0].done:
					select {
					case <-cols[1].done:
						return
					default:
					}
				default:
				}
				time.Sleep(20 * time.Microsecond)
			}
		}()

		// handed[d] counts the messages the bridge has handed to the reader of
		// direction d (queue length before minus after a Tick/Process): the
		// reader goroutine must show exactly that many, so comparisons do not
		// depend on timing.
		var handed [2]int
		// a reader must not see an error while both endpoints are open: every read returns a
		// message (Process would wait for ever for a reader that has given up)
		readersAlive := func(when string) {
			for d := 0; d < 2; d++ {
				if cols[d] == nil {
					continue
				}
				if err := cols[d].ended(); err != nil {
					br.Drop(0, 0, br.Len(0)) // lets a Process call that is still running return
					br.Drop(1, 0, br.Len(1))
					t.Fatalf("C18: %s: Read on the endpoint that receives direction %d failed with %q although neither endpoint has been closed (after %d messages); every read must return the next message", when, d, err, len(cols[d].snapshot()))
				}
			}
		}
		deliver := func(what string, f func()) {
			var before [2]int
			for d := 0; d < 2; d++ {
				before[d] = br.Len(d)
			}
			fin := make(chan struct{})
			go func() { defer close(fin); f() }()
			for running := true; running; {
				select {
				case <-fin:
					running = false
				case <-time.After(2 * time.Millisecond):
					readersAlive("during " + what)
				}
			}
			readersAlive("after " + what)
			for d := 0; d < 2; d++ {
				k := before[d] - br.Len(d)
				if k < 0 {
					t.Fatalf("C18: %s made the queue of direction %d grow from %d to %d", what, d, before[d], br.Len(d))
				}
				handed[d] += k
				m := dm[d]
				if m.strict {
					if k > len(m.queue) {
						t.Fatalf("C18: %s handed over %d messages of direction %d, the script implies only %d queued", what, k, d, len(m.queue))
					}
					m.expect = append(m.expect, m.queue[:k]...)
					m.queue = m.queue[k:]
				}
			}
		}
		verify := func(after string, drained bool) {
			for d := 0; d < 2; d++ {
				m := dm[d]
				var got [][]byte
				deadline := time.Now().Add(5 * time.Second)
				for {
					got = cols[d].snapshot()
					if len(got) >= handed[d] || time.Now().After(deadline) {
						break
					}
					time.Sleep(20 * time.Microsecond)
				}
				if len(got) != handed[d] {
					t.Fatalf("C18: after %s direction %d: the bridge handed over %d messages, the reader has %d", after, d, handed[d], len(got))
				}
				if m.strict {
					if drained && len(m.queue) > 0 {
						t.Fatalf("C18: after %s direction %d: %d message(s) the script implies were never queued (lost or withheld)", after, d, len(m.queue))
					}
					if len(got) != len(m.expect) {
						t.Fatalf("C18: after %s direction %d: reader received %d messages, the script implies %d", after, d, len(got), len(m.expect))
					}
					for i := range got {
						want := cut(m.expect[i], rbuf[d])
						if !bytes.Equal(got[i], want) {
							t.Fatalf("C18: after %s direction %d: message %d is %x... (len %d), the script implies %x... (len %d)", after, d, i, cut(got[i], 8), len(got[i]), cut(want, 8), len(want))
						}
					}
				}
				// weak oracle, always: no duplicates, nothing invented, intact
				seen := map[int]bool{}
				empties := 0
				for i, g := range got {
					if len(g) == 0 {
						empties++
						continue
					}
					if len(g) < 4 {
						t.Fatalf("C18: direction %d: received a %d-byte message, none was written", d, len(g))
					}
					s := int(g[1])<<16 | int(g[2])<<8 | int(g[3])
					w, ok := m.written[s]
					if !ok || !bytes.Equal(g, cut(w, rbuf[d])) {
						t.Fatalf("C18: direction %d: received message %d (%x...) that was never written in this direction or is modified", d, i, cut(g, 8))
					}
					if seen[s] {
						t.Fatalf("C18: direction %d: message with serial %d was delivered twice", d, s)
					}
					seen[s] = true
				}
				if empties > m.empties {
					t.Fatalf("C18: direction %d: %d empty messages delivered, %d written", d, empties, m.empties)
				}
			}
		}

		n := rapid.IntRange(1, 50).Draw(t, "steps")
		// a quarter of the histories contain one long run of writes in one direction (60..140
		// messages queue up before anything is handed over) while the other direction goes on
		burstAt := -1
		if rapid.IntRange(0, 3).Draw(t, "burst") == 0 {
			burstAt = rapid.IntRange(0, n-1).Draw(t, "burstAt")
		}
		for i := 0; i < n; i++ {
			if i == burstAt {
				bd := rapid.IntRange(0, 1).Draw(t, "burstDir")
				k := rapid.IntRange(60, 140).Draw(t, "burstLen")
				for j := 0; j < k; j++ {
					serial++
					msg := mkMsg(j%4, serial, 4+j%17)
					if nn, err := conns[bd].Write(append([]byte(nil), msg...)); err != nil || nn != len(msg) {
						t.Fatalf("C18: Write of %d bytes on endpoint %d returned %d,%v", len(msg), bd, nn, err)
					}
					dm[bd].write(msg, serial)
				}
				if dm[bd].strict && br.Len(bd) != len(dm[bd].queue) {
					t.Fatalf("C18: after a run of %d writes on direction %d the bridge queues %d messages, the script implies %d", k, bd, br.Len(bd), len(dm[bd].queue))
				}
				c.Op("burst dir%d x%d", bd, k)
				c.Label("long-run-of-writes")
				t.Logf("step %d: burst of %d writes on direction %d", i, k, bd)
			}
			if i == lateAt {
				startReaders()
				c.Label("readers-started-late")
			}
			d := rapid.IntRange(0, 1).Draw(t, "dir")
			m := dm[d]
			switch op := rapid.IntRange(0, 99).Draw(t, "op"); {
			case op < 50:
				size := rapid.IntRange(4, 60).Draw(t, "size")
				switch rapid.IntRange(0, 9).Draw(t, "sk") {
				case 0:
					size = 0
				case 1:
					size = rapid.IntRange(61, 2000).Draw(t, "bsize")
				}
				class := rapid.IntRange(0, 3).Draw(t, "class")
				serial++
				msg := mkMsg(class, serial, size)
				w := append([]byte(nil), msg...)
				nn, err := conns[d].Write(w)
				for j := range w {
					w[j] = 0xCC
				}
				if err != nil || nn != size {
					t.Fatalf("C18: Write of %d bytes on endpoint %d returned %d,%v", size, d, nn, err)
				}
				res := m.write(msg, serial)
				if m.strict && br.Len(d) != len(m.queue) {
					t.Fatalf("C18: after write #%d on direction %d (%s) the bridge queues %d messages, the script implies %d", serial, d, res, br.Len(d), len(m.queue))
				}
				c.Op("write dir%d #%d class%d len%d: %s", d, serial, class, size, res)
				t.Logf("step %d: write dir%d serial=%d class=%d len=%d -> %s", i, d, serial, class, size, res)
			case op < 58:
				k := rapid.IntRange(0, 3).Draw(t, "n")
				br.DropNextNWrites(d, k)
				m.dropN = k
				c.Op("DropNextNWrites dir%d %d", d, k)
				c.Label("op/DropNextNWrites")
				t.Logf("step %d: DropNextNWrites(%d,%d)", i, d, k)
			case op < 70:
				k := rapid.IntRange(1, 4).Draw(t, "n")
				if len(m.stack) > 0 {
					m.strict = false // re-arming a half-filled batch: unspecified
					c.Label("reorder/rearm-mid-batch")
				}
				br.ReorderNextNWrites(d, k)
				m.reorderN = k
				m.nReorder++
				if k == 1 {
					c.Label("reorder/n=1")
				}
				c.Op("ReorderNextNWrites dir%d %d", d, k)
				c.Label("op/ReorderNextNWrites")
				t.Logf("step %d: ReorderNextNWrites(%d,%d)", i, d, k)
			case op < 76:
				l := br.Len(d) // callers pass offsets inside the queue
				if m.strict && l != len(m.queue) {
					t.Fatalf("C18: direction %d queues %d messages, the script implies %d", d, l, len(m.queue))
				}
				off := rapid.IntRange(0, l).Draw(t, "off")
				k := rapid.IntRange(0, 3).Draw(t, "n")
				br.Drop(d, off, k)
				if br.Len(d) != l-min(k, l-off) {
					t.Fatalf("C18: Drop(%d,%d,%d) on a queue of %d left %d messages", d, off, k, l, br.Len(d))
				}
				if m.strict {
					end := min(off+k, l)
					for _, q := range m.queue[off:end] {
						if len(q) >= 4 {
							m.mayDrop[int(q[1])<<16|int(q[2])<<8|int(q[3])] = true
						} else {
							m.emptyMayDrop++
						}
					}
					m.queue = append(m.queue[:off:off], m.queue[end:]...)
				} else {
					m.unknownDrops += min(k, l-off)
				}
				c.Op("Drop dir%d off%d n%d", d, off, k)
				c.Label("op/Drop")
				t.Logf("step %d: Drop(%d, off=%d, n=%d) queue %d -> %d", i, d, off, k, l, len(m.queue))
			case op < 82:
				err := br.Reorder(d)
				if len(m.queue) >= 2 {
					if err != nil && m.strict {
						t.Fatalf("C18: Reorder(%d) of %d queued messages failed: %v", d, len(m.queue), err)
					}
					for a, b := 0, len(m.queue)-1; a < b; a, b = a+1, b-1 {
						m.queue[a], m.queue[b] = m.queue[b], m.queue[a]
					}
				}
				c.Op("Reorder dir%d", d)
				c.Label("op/Reorder")
				t.Logf("step %d: Reorder(%d) -> %v", i, d, err)
			case op < 88:
				k := rapid.IntRange(-1, 3).Draw(t, "class")
				if k < 0 {
					br.Filter(d, nil)
				} else {
					br.Filter(d, func(b []byte) bool { return len(b) == 0 || int(b[0]) != k })
				}
				m.filter = k
				c.Op("Filter dir%d reject-class %d", d, k)
				c.Label("op/Filter")
				t.Logf("step %d: Filter(%d, reject class %d)", i, d, k)
			case cols[0] == nil && op >= 88:
				idleTick(i)
				c.Op("idle Tick")
				t.Logf("step %d: Tick (no reader)", i)
			case op < 92:
				deliver("Tick", func() { br.Tick() })
				c.Op("Tick")
				t.Logf("step %d: Tick", i)
				verify("Tick", false)
			default:
				deliver("Process", br.Process)
				c.Op("Process")
				t.Logf("step %d: Process", i)
				verify("Process", true)
			}
		}
		startReaders()
		deliver("final Process", br.Process)
		verify("final Process", true)
		// ---- completeness: flush whatever is still withheld and account for every message
		for d := 0; d < 2; d++ {
			m := dm[d]
			br.Filter(d, nil)
			m.filter = -1
			br.DropNextNWrites(d, 0)
			m.dropN = 0
			br.ReorderNextNWrites(d, 1)
			m.reorderN = 1
			serial++
			msg := mkMsg(0, serial, 8)
			if _, err := conns[d].Write(append([]byte(nil), msg...)); err != nil {
				t.Fatalf("C18: flush write: %v", err)
			}
			m.write(msg, serial)
		}
		deliver("flush Process", br.Process)
		verify("flush Process", true)
		for d := 0; d < 2; d++ {
			m := dm[d]
			got := cols[d].snapshot()
			have := map[int]bool{}
			empties := 0
			for _, g := range got {
				if len(g) >= 4 {
					have[int(g[1])<<16|int(g[2])<<8|int(g[3])] = true
				} else if len(g) == 0 {
					empties++
				}
			}
			missing := 0
			example := -1
			for sNo := range m.written {
				if !have[sNo] && !m.mayDrop[sNo] {
					missing++
					example = sNo
				}
			}
			if e := m.empties - m.emptyMayDrop - empties; e > 0 {
				missing += e
			}
			if missing > m.unknownDrops {
				t.Fatalf("C18: direction %d: %d written message(s) (e.g. serial %d) were neither delivered nor dropped/filtered by any request of the script (%d removed by Drop calls)", d, missing, example, m.unknownDrops)
			}
		}
		for d := 0; d < 2; d++ {
			if dm[d].nReorder >= 2 {
				c.Label("reorder-batches>=2")
				c.NonTrivial()
			}
			if dm[d].nReorder >= 1 && (c.Has("op/DropNextNWrites") || c.Has("op/Filter") || c.Has("op/Drop") || c.Has("op/Reorder")) {
				c.NonTrivial()
			}
			if !dm[d].strict {
				c.Label("weak-oracle-direction")
			}
		}
	})
}

// ---- dpipe --------------------------------------------------------------

const ruleDpipe = "rapid-drawn history over one dpipe pair: write(side, 0..2000 bytes), read(side, buffer 0..3000 bytes; only when the model has a message for that side), close(side) followed by more traffic on the other side; model = one FIFO per direction; every read returns exactly the next message cut to the buffer, one message per read; a closed end's operations fail, the other end keeps reading what was already sent and can still write; write deadlines are not used (dpipe purges its queue on an expired write deadline by design); non-trivial = both directions used and a close happened with messages still queued, or a truncating read; distinct by hash of the step list"

func TestC18Dpipe(t *testing.T) {
	r := ev.New("C18", "dpipe", ruleDpipe)
	r.Essential = []string{"close-with-queued", "read/truncated", "read/empty-message"}
	r.MinForEssential = 1000
	r.Check(t, func(t *rapid.T, c *ev.Case) {
		a, b := dpipePair()
		conns := [2]net.Conn{a, b}
		var q [2][][]byte // q[s]: messages waiting to be read BY side s
		var closed [2]bool
		var used [2]bool
		serial := 0
		n := rapid.IntRange(1, 60).Draw(t, "steps")
		for i := 0; i < n; i++ {
			s := rapid.IntRange(0, 1).Draw(t, "side")
			switch op := rapid.IntRange(0, 99).Draw(t, "op"); {
			case op < 50:
				size := rapid.IntRange(0, 40).Draw(t, "size")
				if rapid.IntRange(0, 7).Draw(t, "big") == 0 {
					size = rapid.IntRange(41, 2000).Draw(t, "bsize")
				}
				serial++
				msg := mkMsg(s, serial, size)
				w := append([]byte(nil), msg...)
				nn, err := conns[s].Write(w)
				for j := range w {
					w[j] = 0x33
				}
				c.Op("write side%d len%d -> %d,%v", s, size, nn, err != nil)
				t.Logf("step %d: write side%d len=%d -> %d,%v", i, s, size, nn, err)
				if closed[s] {
					if err == nil {
						t.Fatalf("C18: Write on a closed dpipe end succeeded")
					}
					continue
				}
				if err != nil || nn != size {
					t.Fatalf("C18: dpipe Write of %d bytes returned %d,%v (peer closed=%v must not matter)", size, nn, err, closed[1-s])
				}
				used[s] = true
				if len(q[1-s]) < 900 {
					q[1-s] = append(q[1-s], msg)
				}
			case op < 92:
				if closed[s] {
					buf := make([]byte, 16)
					nn, err := conns[s].Read(buf)
					if err == nil {
						t.Fatalf("C18: Read on a closed dpipe end returned %d bytes and no error", nn)
					}
					c.Op("read closed side%d", s)
					continue
				}
				if len(q[s]) == 0 {
					c.Op("read-skip side%d", s)
					continue
				}
				want := q[s][0]
				q[s] = q[s][1:]
				bl := len(want)
				switch rapid.IntRange(0, 5).Draw(t, "bk") {
				case 0:
					bl = rapid.IntRange(0, 3000).Draw(t, "buf")
				case 1:
					bl = len(want) + 1
				case 2:
					if bl > 0 {
						bl--
					}
				}
				buf := make([]byte, bl)
				// the model says a message is waiting: a deadline turns a lost message into a finding, not a hang
				_ = conns[s].SetReadDeadline(time.Now().Add(3 * time.Second))
				nn, err := conns[s].Read(buf)
				_ = conns[s].SetReadDeadline(time.Time{})
				c.Op("read side%d buf%d -> %d", s, bl, nn)
				t.Logf("step %d: read side%d buf=%d -> %d,%v (message of %d bytes)", i, s, bl, nn, err, len(want))
				if err != nil {
					t.Fatalf("C18: dpipe Read failed with %v although a %d-byte message is queued (peer closed=%v)", err, len(want), closed[1-s])
				}
				exp := cut(want, bl)
				if nn != len(exp) || !bytes.Equal(buf[:nn], exp) {
					t.Fatalf("C18: dpipe Read returned %d bytes %x..., want the next message cut to the buffer: %d bytes %x...", nn, cut(buf[:nn], 8), len(exp), cut(exp, 8))
				}
				if bl < len(want) {
					c.Label("read/truncated")
					c.NonTrivial()
				}
				if len(want) == 0 {
					c.Label("read/empty-message")
				}
				if closed[1-s] {
					c.Label("read-after-peer-closed")
				}
			default:
				err := conns[s].Close()
				if err != nil {
					t.Fatalf("C18: dpipe Close returned %v", err)
				}
				c.Op("close side%d", s)
				t.Logf("step %d: close side%d", i, s)
				if !closed[s] && len(q[1-s]) > 0 && used[0] && used[1] {
					c.Label("close-with-queued")
					c.NonTrivial()
				}
				closed[s] = true
			}
		}
		// final drain: everything still queued for an open side is intact
		for s := 0; s < 2; s++ {
			if closed[s] {
				continue
			}
			for _, want := range q[s] {
				buf := make([]byte, 2100)
				_ = conns[s].SetReadDeadline(time.Now().Add(3 * time.Second))
				nn, err := conns[s].Read(buf)
				if err != nil || !bytes.Equal(buf[:nn], want) {
					t.Fatalf("C18: final drain of side %d: got %d bytes err=%v, want %d bytes", s, nn, err, len(want))
				}
			}
		}
		_ = a.Close()
		_ = b.Close()
	})
}

func dpipePair() (net.Conn, net.Conn) { return dpipe.Pipe() }
