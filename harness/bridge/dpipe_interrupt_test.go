package bridge

import (
	"bytes"
	"context"
	"errors"
	"net"
	"runtime"
	"sync"
	"testing"
	"time"

	"pgregory.net/rapid"

	"verifharness/ev"
)

const ruleDpipeInterrupt = "rapid-drawn rounds over one dpipe direction with the reader already inside Read: per round a reader goroutine calls Read with no deadline, then (after a drawn head start: none, a yield, 50 us, 300 us) the controller writes 1..3 messages from the peer and moves the reader's deadline into the past (or 0..100 us ahead) in a drawn order: write first, deadline first, or both at once from two goroutines, with a drawn gap between them; oracle: every Read returns either the next unread message, intact, or a timeout error that consumes nothing; after the rounds a drain with a generous deadline returns exactly the messages no Read returned, in the order written, and one more Read with a short deadline times out (nothing invented); a Read that has not returned 5 s after its deadline passed is a violation; non-trivial = some Read came back with a timeout while a message written in its round was waiting (the message-against-deadline race went to the deadline); distinct by hash of the drawn plan (outcomes are labels only)"

func TestC18DpipeInterrupt(t *testing.T) {
	r := ev.New("C18", "dpipe-interrupt", ruleDpipeInterrupt)
	r.Essential = []string{"order/write-first", "order/deadline-first", "order/concurrent", "read/data", "read/timeout-with-message-waiting"}
	r.MinForEssential = 100
	r.Check(t, func(t *rapid.T, c *ev.Case) {
		a, b := dpipePair()
		conns := [2]net.Conn{a, b}
		defer a.Close() //nolint:errcheck
		defer b.Close() //nolint:errcheck
		s := rapid.IntRange(0, 1).Draw(t, "writerSide")
		w, rd := conns[s], conns[1-s]
		var pending [][]byte
		serial := 0
		type res struct {
			data []byte
			err  error
		}
		rounds := rapid.IntRange(1, 10).Draw(t, "rounds")
		for i := 0; i < rounds; i++ {
			_ = rd.SetReadDeadline(time.Time{})
			resCh := make(chan res, 1)
			go func() {
				buf := make([]byte, 2100)
				n, err := rd.Read(buf)
				resCh <- res{append([]byte(nil), buf[:n]...), err}
			}()
			head := rapid.IntRange(0, 3).Draw(t, "headStart")
			switch head {
			case 1:
				runtime.Gosched()
			case 2:
				time.Sleep(50 * time.Microsecond)
			case 3:
				time.Sleep(300 * time.Microsecond)
			}
			k := rapid.IntRange(1, 3).Draw(t, "writes")
			order := rapid.IntRange(0, 2).Draw(t, "order")
			gap := rapid.IntRange(0, 2).Draw(t, "gap")
			ahead := rapid.SampledFrom([]int{-1, -1, 0, 20, 100}).Draw(t, "deadlineAheadUs")
			c.Op("round head%d writes%d order%d gap%d ahead%d", head, k, order, gap, ahead)
			var msgs [][]byte
			for j := 0; j < k; j++ {
				serial++
				msgs = append(msgs, mkMsg(s, serial, rapid.IntRange(0, 40).Draw(t, "size")))
			}
			doWrite := func() {
				for _, m := range msgs {
					wb := append([]byte(nil), m...)
					n, err := w.Write(wb)
					for x := range wb {
						wb[x] = 0x33
					}
					if err != nil || n != len(m) {
						t.Errorf("C18: dpipe Write of %d bytes returned %d,%v", len(m), n, err)
					}
				}
			}
			doDeadline := func() {
				dl := time.Unix(1, 0)
				if ahead >= 0 {
					dl = time.Now().Add(time.Duration(ahead) * time.Microsecond)
				}
				_ = rd.SetReadDeadline(dl)
			}
			doGap := func() {
				switch gap {
				case 1:
					runtime.Gosched()
				case 2:
					for st := time.Now(); time.Since(st) < 15*time.Microsecond; {
					}
				}
			}
			switch order {
			case 0:
				c.Label("order/write-first")
				doWrite()
				doGap()
				doDeadline()
			case 1:
				c.Label("order/deadline-first")
				doDeadline()
				doGap()
				doWrite()
			default:
				c.Label("order/concurrent")
				var wg sync.WaitGroup
				wg.Add(2)
				go func() { defer wg.Done(); doWrite() }()
				go func() { defer wg.Done(); doGap(); doDeadline() }()
				wg.Wait()
			}
			if t.Failed() {
				t.FailNow()
			}
			pending = append(pending, msgs...)
			var got res
			select {
			case got = <-resCh:
			case <-time.After(5 * time.Second):
				t.Fatalf("C18: a dpipe Read is still blocked 5 s after its read deadline passed and %d message(s) were written to it", len(pending))
			}
			switch {
			case got.err == nil:
				if !bytes.Equal(got.data, pending[0]) {
					t.Fatalf("C18: interrupted dpipe Read returned %d bytes %x..., want the next unread message: %d bytes %x...", len(got.data), cut(got.data, 8), len(pending[0]), cut(pending[0], 8))
				}
				pending = pending[1:]
				c.Label("read/data")
			case errors.Is(got.err, context.DeadlineExceeded):
				if len(got.data) != 0 {
					t.Fatalf("C18: dpipe Read returned %d bytes together with %v", len(got.data), got.err)
				}
				c.Label("read/timeout")
				if len(pending) > 0 {
					c.Label("read/timeout-with-message-waiting")
					c.NonTrivial()
				}
			default:
				t.Fatalf("C18: dpipe Read on an open pair failed with %v", got.err)
			}
		}
		// drain: a Read that timed out consumed nothing
		_ = rd.SetReadDeadline(time.Now().Add(3 * time.Second))
		for j, want := range pending {
			buf := make([]byte, 2100)
			n, err := rd.Read(buf)
			if err != nil {
				t.Fatalf("C18: message %d of the %d that no Read had returned is lost: drain Read failed with %v (a Read that reports a timeout must not consume a message)", j, len(pending), err)
			}
			if !bytes.Equal(buf[:n], want) {
				t.Fatalf("C18: drain Read %d returned %d bytes %x..., want %d bytes %x... (order or content broken after interrupted reads)", j, n, cut(buf[:n], 8), len(want), cut(want, 8))
			}
		}
		_ = rd.SetReadDeadline(time.Now().Add(2 * time.Millisecond))
		if n, err := rd.Read(make([]byte, 2100)); err == nil {
			t.Fatalf("C18: a Read after everything was drained returned %d bytes nobody wrote", n)
		}
	})
}
