package bridge

import (
	"bytes"
	"encoding/binary"
	"sync"
	"testing"
	"time"

	"github.com/pion/transport/v3/test"
	"pgregory.net/rapid"

	"verifharness/ev"
)

const ruleBridgeConc = "concurrent writers: 2..4 goroutines write 2..12 messages each to one Bridge endpoint (a drawn subset of them to the other one) while DropNextNWrites(0, n) with 0 <= n <= total is pending (in half of the cases it is re-issued with 0 by a further goroutine while the writers run); every writer overwrites its buffer as soon as Write returns; then Process, and the collecting readers are compared with what was written: every delivered message is byte-identical to a written one, none twice, per-writer order preserved, and on direction 0 exactly total - dropped messages arrive where dropped <= n (== n when the counter was not re-issued); non-trivial = n > 0 and >= 2 writers on direction 0; distinct by hash of the plan"

func TestC18BridgeConcurrent(t *testing.T) {
	r := ev.New("C18", "bridge-concurrent", ruleBridgeConc)
	r.Essential = []string{"drop-pending", "drop-reissued"}
	r.MinForEssential = 100
	r.Check(t, func(t *rapid.T, c *ev.Case) {
		nw := rapid.IntRange(2, 4).Draw(t, "writers")
		per := make([]int, nw)
		dir := make([]int, nw)
		total0 := 0
		w0 := 0
		for i := range per {
			per[i] = rapid.IntRange(2, 12).Draw(t, "msgs")
			if i >= 2 && rapid.IntRange(0, 2).Draw(t, "other") == 0 {
				dir[i] = 1
			} else {
				total0 += per[i]
				w0++
			}
		}
		n := rapid.IntRange(0, total0).Draw(t, "drop")
		reissue := rapid.Bool().Draw(t, "reissue")
		reissueAfter := time.Duration(rapid.IntRange(0, 200).Draw(t, "reissueAfterUs")) * time.Microsecond
		c.Op("writers %v dirs %v drop %d reissue %v", per, dir, n, reissue)
		if n > 0 {
			c.Label("drop-pending")
			if w0 >= 2 {
				c.NonTrivial()
			}
		}
		br := test.NewBridge()
		conns := [2]interface {
			Write([]byte) (int, error)
			Read([]byte) (int, error)
			Close() error
		}{br.GetConn0(), br.GetConn1()}
		var mu sync.Mutex
		got := [2][][]byte{}
		var rwg sync.WaitGroup
		for d := 0; d < 2; d++ {
			d := d
			rwg.Add(1)
			go func() {
				defer rwg.Done()
				buf := make([]byte, 256)
				for {
					k, err := conns[1-d].Read(buf) // messages of direction d are read at the other end
					if err != nil {
						return
					}
					mu.Lock()
					got[d] = append(got[d], append([]byte(nil), buf[:k]...))
					mu.Unlock()
				}
			}()
		}
		br.DropNextNWrites(0, n)
		mk := func(w, i int) []byte {
			p := make([]byte, 12+(w*5+i)%40)
			binary.BigEndian.PutUint32(p, uint32(w))
			binary.BigEndian.PutUint32(p[4:], uint32(i))
			for j := 8; j < len(p); j++ {
				p[j] = byte(w*37 + i*11 + j)
			}
			return p
		}
		var wg sync.WaitGroup
		var werr error
		for w := 0; w < nw; w++ {
			w := w
			wg.Add(1)
			go func() {
				defer wg.Done()
				buf := make([]byte, 64)
				for i := 0; i < per[w]; i++ {
					m := mk(w, i)
					b := buf[:len(m)]
					copy(b, m)
					if k, err := conns[dir[w]].Write(b); err != nil || k != len(m) {
						mu.Lock()
						werr = err
						mu.Unlock()
						return
					}
					for j := range b {
						b[j] = 0xFF // the writer reuses its buffer at once
					}
				}
			}()
		}
		if reissue {
			c.Label("drop-reissued")
			wg.Add(1)
			go func() {
				defer wg.Done()
				time.Sleep(reissueAfter)
				br.DropNextNWrites(0, 0)
			}()
		}
		wg.Wait()
		br.Process()
		// everything handed over; stop the readers
		_ = conns[0].Close()
		_ = conns[1].Close()
		br.Tick()
		br.Tick()
		rwg.Wait()
		mu.Lock()
		defer mu.Unlock()
		if werr != nil {
			t.Fatalf("C18: a Write on an open Bridge endpoint failed: %v", werr)
		}
		for d := 0; d < 2; d++ {
			seen := map[[2]uint32]bool{}
			last := map[uint32]int{}
			for k, m := range got[d] {
				if len(m) < 8 {
					t.Fatalf("C18: direction %d: delivered message %d has %d bytes; no such message was written", d, k, len(m))
				}
				w, i := binary.BigEndian.Uint32(m), binary.BigEndian.Uint32(m[4:])
				if int(w) >= nw || int(i) >= per[w] || dir[w] != d || !bytes.Equal(m, mk(int(w), int(i))) {
					t.Fatalf("C18: direction %d: delivered message %d (%x...) is not one of the written messages (modified after the write returned, or invented)", d, k, m[:8])
				}
				if seen[[2]uint32{w, i}] {
					t.Fatalf("C18: direction %d: message %d of writer %d was delivered twice", d, i, w)
				}
				seen[[2]uint32{w, i}] = true
				if l, ok := last[w]; ok && int(i) < l {
					t.Fatalf("C18: direction %d: writer %d's message %d was delivered after its message %d", d, w, i, l)
				}
				last[w] = int(i)
			}
		}
		total1 := 0
		for w := range per {
			if dir[w] == 1 {
				total1 += per[w]
			}
		}
		if len(got[1]) != total1 {
			t.Fatalf("C18: direction 1: %d messages written, %d delivered, nothing was asked to be dropped there", total1, len(got[1]))
		}
		dropped := total0 - len(got[0])
		if dropped < 0 || dropped > n || (!reissue && dropped != n) {
			t.Fatalf("C18: direction 0: %d messages written with DropNextNWrites(0,%d) pending (re-issued with 0: %v), %d delivered", total0, n, reissue, len(got[0]))
		}
		c.Count("messages", int64(total0+total1))
	})
}

const ruleBridgeTick = "Tick against Reorder: 10..60 messages are written to one endpoint (nothing handed over yet), then one goroutine calls Tick until everything is delivered while another calls Reorder on that direction 1..40 times with drawn pauses of 0..50 us; Reorder loses and invents nothing, so the collecting reader must end up with exactly the written messages, each once, unmodified, whatever the order; non-trivial = every case; distinct by hash of the plan"

func TestC18BridgeTickVsReorder(t *testing.T) {
	r := ev.New("C18", "bridge-tick-vs-reorder", ruleBridgeTick)
	r.Check(t, func(t *rapid.T, c *ev.Case) {
		n := rapid.IntRange(10, 60).Draw(t, "messages")
		nre := rapid.IntRange(1, 40).Draw(t, "reorders")
		pauses := make([]time.Duration, nre)
		for i := range pauses {
			pauses[i] = time.Duration(rapid.IntRange(0, 50).Draw(t, "pauseUs")) * time.Microsecond
		}
		dir := rapid.IntRange(0, 1).Draw(t, "dir")
		c.Op("messages %d reorders %d dir %d", n, nre, dir)
		c.NonTrivial()
		br := test.NewBridge()
		conns := [2]interface {
			Write([]byte) (int, error)
			Read([]byte) (int, error)
			Close() error
		}{br.GetConn0(), br.GetConn1()}
		var mu sync.Mutex
		var got [][]byte
		done := make(chan struct{})
		go func() {
			defer close(done)
			buf := make([]byte, 64)
			for {
				k, err := conns[1-dir].Read(buf)
				if err != nil {
					return
				}
				mu.Lock()
				got = append(got, append([]byte(nil), buf[:k]...))
				mu.Unlock()
			}
		}()
		mk := func(i int) []byte {
			p := make([]byte, 12)
			binary.BigEndian.PutUint32(p, uint32(i))
			binary.BigEndian.PutUint64(p[4:], uint64(i)*0x9E3779B97F4A7C15)
			return p
		}
		for i := 0; i < n; i++ {
			if _, err := conns[dir].Write(mk(i)); err != nil {
				t.Fatalf("C18: Write: %v", err)
			}
		}
		var wg sync.WaitGroup
		wg.Add(1)
		go func() {
			defer wg.Done()
			for _, p := range pauses {
				_ = br.Reorder(dir)
				if p > 0 {
					time.Sleep(p)
				}
			}
		}()
		limit := time.Now().Add(5 * time.Second)
		for br.Len(dir) > 0 && time.Now().Before(limit) {
			if br.Tick() == 0 {
				time.Sleep(20 * time.Microsecond) // the reader has not come back to Read yet
			}
		}
		wg.Wait()
		for br.Len(dir) > 0 && time.Now().Before(limit) {
			if br.Tick() == 0 {
				time.Sleep(20 * time.Microsecond)
			}
		}
		_ = conns[0].Close()
		_ = conns[1].Close()
		br.Tick()
		br.Tick()
		<-done
		mu.Lock()
		defer mu.Unlock()
		seen := map[uint32]bool{}
		for k, m := range got {
			if len(m) != 12 || int(binary.BigEndian.Uint32(m)) >= n || !bytes.Equal(m, mk(int(binary.BigEndian.Uint32(m)))) {
				t.Fatalf("C18: delivered message %d (%x) is not one of the %d written", k, m, n)
			}
			i := binary.BigEndian.Uint32(m)
			if seen[i] {
				t.Fatalf("C18: message %d was delivered twice (Tick running against Reorder; %d written, %d delivered)", i, n, len(got))
			}
			seen[i] = true
		}
		if len(got) != n {
			t.Fatalf("C18: %d messages written, %d delivered although nothing was asked to be dropped (Tick running against Reorder)", n, len(got))
		}
		c.Count("messages", int64(n))
	})
}
