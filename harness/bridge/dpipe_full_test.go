package bridge

import (
	"bytes"
	"net"
	"runtime"
	"strings"
	"testing"
	"time"

	"pgregory.net/rapid"

	"verifharness/ev"
)

// writersParked counts goroutines that are blocked inside dpipe's Write.
func writersParked() int {
	buf := make([]byte, 1<<20)
	buf = buf[:runtime.Stack(buf, true)]
	n := 0
	for _, g := range strings.Split(string(buf), "\n\n") {
		if strings.Contains(g, "dpipe.(*conn).Write") && strings.Contains(strings.SplitN(g, "\n", 2)[0], "[select") {
			n++
		}
	}
	return n
}

const ruleDpipeFull = "rapid-drawn history around a dpipe direction filled to its capacity: 990..1000 messages of 0..20 bytes written by one side, then 1..4 further single-message writers on their own goroutines (those that find no room stay parked inside Write; waited for through goroutine dumps), then a drawn ending: the writing side closes itself; the reading side reads 1..5 messages (releasing as many parked writers) and then the writing side closes; the reading side closes itself and the writing side afterwards; oracle: every Write that returned (len, nil) is read by the peer exactly once and unmodified, the sequential prefix in its order, a Write released by Close returns 0 and an error and delivers nothing, and nothing else is delivered; non-trivial = at least one writer was parked when the ending began; distinct by hash of the step list"

func TestC18DpipeFull(t *testing.T) {
	r := ev.New("C18", "dpipe-full", ruleDpipeFull)
	r.Essential = []string{"ending/writer-closes", "ending/reader-reads-then-writer-closes", "parked-writer"}
	r.MinForEssential = 60
	r.Check(t, func(t *rapid.T, c *ev.Case) {
		a, b := dpipePair()
		conns := [2]net.Conn{a, b}
		s := rapid.IntRange(0, 1).Draw(t, "writerSide")
		w, rd := conns[s], conns[1-s]
		defer a.Close() //nolint:errcheck
		defer b.Close() //nolint:errcheck
		k := rapid.IntRange(990, 1000).Draw(t, "prefill")
		var prefix [][]byte
		for i := 0; i < k; i++ {
			m := mkMsg(s, i+1, rapid.IntRange(0, 20).Draw(t, "size"))
			n, err := w.Write(append([]byte(nil), m...))
			if err != nil || n != len(m) {
				t.Fatalf("C18: dpipe Write %d of %d bytes returned %d,%v", i, len(m), n, err)
			}
			prefix = append(prefix, m)
		}
		c.Op("prefill %d", k)
		extra := rapid.IntRange(1, 4).Draw(t, "extra")
		type res struct {
			serial int
			n      int
			err    error
		}
		results := make(chan res, extra)
		base := writersParked()
		msgs := map[int][]byte{}
		for i := 0; i < extra; i++ {
			serial := 5000 + i
			m := mkMsg(s, serial, 8)
			msgs[serial] = m
			go func() {
				n, err := w.Write(append([]byte(nil), m...))
				results <- res{serial, n, err}
			}()
		}
		wantParked := k + extra - 1000
		if wantParked < 0 {
			wantParked = 0
		}
		done := map[int]res{}
		deadline := time.Now().Add(5 * time.Second)
		for len(done) < extra-wantParked || writersParked()-base < wantParked {
			select {
			case x := <-results:
				done[x.serial] = x
			case <-time.After(200 * time.Microsecond):
			}
			if time.Now().After(deadline) {
				t.Fatalf("C18: %d writers on a dpipe direction holding %d of 1000 messages: %d returned, %d parked, expected %d parked", extra, k, len(done), writersParked()-base, wantParked)
			}
		}
		c.Op("extra %d parked %d", extra, wantParked)
		if wantParked > 0 {
			c.Label("parked-writer")
			c.NonTrivial()
		}
		var got [][]byte
		readOne := func(what string) {
			buf := make([]byte, 64)
			_ = rd.SetReadDeadline(time.Now().Add(400 * time.Millisecond)) // the message is already queued: no waiting is involved
			n, err := rd.Read(buf)
			_ = rd.SetReadDeadline(time.Time{})
			if err != nil {
				t.Fatalf("C18: %s: dpipe Read failed with %v after %d of the messages written successfully were read", what, err, len(got))
			}
			got = append(got, append([]byte(nil), buf[:n]...))
		}
		collect := func(n int) {
			for i := 0; i < n; i++ {
				select {
				case x := <-results:
					done[x.serial] = x
				case <-time.After(5 * time.Second):
					t.Fatalf("C18: a dpipe Write stayed blocked although it was released (room in the pipe or Close of its own end)")
				}
			}
		}
		switch rapid.IntRange(0, 2).Draw(t, "ending") {
		case 0:
			c.Label("ending/writer-closes")
			c.Op("writer closes")
			_ = w.Close()
		case 1:
			c.Label("ending/reader-reads-then-writer-closes")
			nr := rapid.IntRange(1, 5).Draw(t, "reads")
			c.Op("reader reads %d, writer closes", nr)
			for i := 0; i < nr; i++ {
				readOne("while writers are parked")
			}
			rel := nr
			if rel > extra-len(done) {
				rel = extra - len(done)
			}
			collect(rel)
			_ = w.Close()
		default:
			c.Label("ending/reader-closes-first")
			c.Op("reader closes, writer closes")
			_ = rd.Close()
			_ = w.Close()
			collect(extra - len(done))
			for serial, x := range done {
				if x.err == nil && x.n != len(msgs[serial]) || x.err != nil && x.n != 0 {
					t.Fatalf("C18: dpipe Write returned %d,%v", x.n, x.err)
				}
			}
			return // a closed end cannot be read any more
		}
		collect(extra - len(done))
		ok := 0
		okSet := map[string]int{}
		for serial, x := range done {
			switch {
			case x.err == nil && x.n == len(msgs[serial]):
				ok++
				okSet[string(msgs[serial])]++
			case x.err != nil && x.n == 0:
			default:
				t.Fatalf("C18: dpipe Write returned %d,%v for an 8-byte message", x.n, x.err)
			}
		}
		for len(got) < k+ok {
			readOne("after the writing side closed its own end (the other end must not be affected)")
		}
		// nothing beyond that
		_ = rd.SetReadDeadline(time.Now().Add(2 * time.Millisecond))
		if n, err := rd.Read(make([]byte, 64)); err == nil {
			t.Fatalf("C18: the peer read a %d-byte message beyond the %d written successfully", n, k+ok)
		}
		for i, m := range prefix {
			if !bytes.Equal(got[i], m) {
				t.Fatalf("C18: message %d read by the peer is %x, written was %x", i, got[i], m)
			}
		}
		for _, m := range got[k:] {
			if okSet[string(m)] == 0 {
				t.Fatalf("C18: the peer read %x which no successful concurrent Write carried (or twice)", m)
			}
			okSet[string(m)]--
		}
		c.Count("messages", int64(len(got)))
	})
}
