// Package ev collects evidence about generated cases: how many were
// evaluated, which were non-trivial by the check's stated rule (counted as
// distinct by a 64-bit hash of the case's canonical rendering), a label
// histogram that shows what the generator actually produced, and a few
// sample cases written out in full. Every test of the harness wraps its
// property in Rec.Check; the driver merges the fragment files.
package ev

import (
	"encoding/binary"
	"encoding/json"
	"fmt"
	"hash/fnv"
	"os"
	"path/filepath"
	"sort"
	"strings"
	"sync"
	"testing"
	"time"

	"pgregory.net/rapid"
)

const (
	maxHashes     = 4 << 20 // per recorder; beyond this distinct counting stops (conservative)
	maxSampleOps  = 80
	firstSamples  = 3
	lowestSamples = 5
)

// Rec is the evidence recorder of one test (one generator + oracle).
type Rec struct {
	mu sync.Mutex

	Property string
	Name     string
	Rule     string
	// Essential labels: if one of them has zero hits at the end of a run of
	// at least MinForEssential evaluations the run is reported inconclusive.
	Essential       []string
	MinForEssential int

	evaluations  int
	skipped      int
	failedSeen   bool
	hashes       map[uint64]struct{}
	hashCapHit   bool
	labels       map[string]int
	counters     map[string]int64
	first        []sample
	lowest       []sample // kept sorted by hash, at most lowestSamples
	assumptions  []string
	known        map[string]int // known-finding id -> number of excluded occurrences
	bulkDistinct int
}

type sample struct {
	Hash uint64
	Val  map[string]any
}

// Case is the per-evaluation handle.
type Case struct {
	r          *Rec
	cfg        []kv
	ops        []string
	nOps       int
	labels     map[string]struct{}
	nontrivial bool
	done       bool
	skipped    bool
	h          hashState
}

type kv struct {
	k string
	v any
}

type hashState struct{ sum uint64 }

func (h *hashState) add(s string) {
	f := fnv.New64a()
	var b [8]byte
	binary.LittleEndian.PutUint64(b[:], h.sum)
	_, _ = f.Write(b[:])
	_, _ = f.Write([]byte(s))
	h.sum = f.Sum64()
}

// New creates a recorder. rule is the human statement of how cases are
// generated and which ones count as non-trivial.
func New(property, name, rule string) *Rec {
	stallOnce.Do(func() { go watchStalls() })
	return &Rec{
		Property: property, Name: name, Rule: rule,
		hashes:   map[uint64]struct{}{},
		labels:   map[string]int{},
		counters: map[string]int64{},
		known:    map[string]int{},
	}
}

var stallOnce sync.Once

// watchStalls notices when the whole process was not scheduled for a long
// time (a suspended or snapshotted virtual machine, a stopped process): every
// verdict that rests on a timing margin is void then. The line it prints makes
// the driver report a failure of this run as infrastructure trouble (exit 2),
// not as a violation; a passing run is not affected.
func watchStalls() {
	const limit = 750 * time.Millisecond
	for {
		t0 := time.Now()
		time.Sleep(2 * time.Millisecond)
		if gap := time.Since(t0); gap > limit {
			fmt.Printf("VERIF-INFRA: this process was not scheduled for %v (machine suspended or starved); timing-based verdicts of this run are void\n", gap)
		}
	}
}

// Assume records an assumption / trusted-base statement for the evidence.
func (r *Rec) Assume(s string) {
	r.mu.Lock()
	defer r.mu.Unlock()
	for _, a := range r.assumptions {
		if a == s {
			return
		}
	}
	r.assumptions = append(r.assumptions, s)
}

// Begin starts one evaluation (for tests that do not go through rapid).
func (r *Rec) Begin() *Case {
	return &Case{r: r, labels: map[string]struct{}{}}
}

// End records a finished, passing evaluation.
func (r *Rec) End(c *Case) {
	c.done = true
	r.finish(c, false)
}

func (r *Rec) finish(c *Case, failed bool) {
	r.mu.Lock()
	defer r.mu.Unlock()
	if r.failedSeen {
		return // shrinking / replay re-executions are not counted
	}
	if failed {
		r.failedSeen = true
		return
	}
	if c.skipped || !c.done {
		r.skipped++
		return
	}
	r.evaluations++
	for l := range c.labels {
		r.labels[l]++
	}
	if !c.nontrivial {
		return
	}
	h := c.h.sum
	if _, dup := r.hashes[h]; dup {
		return
	}
	if len(r.hashes) >= maxHashes {
		r.hashCapHit = true
		return
	}
	r.hashes[h] = struct{}{}
	if len(r.first) < firstSamples {
		r.first = append(r.first, sample{h, c.render()})
		return
	}
	if len(r.lowest) < lowestSamples || h < r.lowest[len(r.lowest)-1].Hash {
		r.lowest = append(r.lowest, sample{h, c.render()})
		sort.Slice(r.lowest, func(i, j int) bool { return r.lowest[i].Hash < r.lowest[j].Hash })
		if len(r.lowest) > lowestSamples {
			r.lowest = r.lowest[:lowestSamples]
		}
	}
}

// Check runs prop under rapid.Check, counting evaluations, and writes the
// evidence fragment when the test ends (pass or fail).
func (r *Rec) Check(t *testing.T, prop func(t *rapid.T, c *Case)) {
	t.Helper()
	defer r.Flush(t)
	rapid.Check(t, func(rt *rapid.T) {
		c := r.Begin()
		defer func() {
			if c.done {
				r.finish(c, false)
				return
			}
			// not completed: Case.Skip (discarded), or a failure (Fatalf, or a
			// panic unwinding out of the property).
			r.finish(c, !c.skipped)
		}()
		prop(rt, c)
		if rt.Failed() {
			return
		}
		c.done = true
	})
}

// Skip marks the case as discarded (precondition not met) and aborts it.
func (c *Case) Skip(t *rapid.T, why string) {
	c.skipped = true
	c.r.mu.Lock()
	c.r.labels["skip/"+why]++
	c.r.mu.Unlock()
	t.Skip(why)
}

// Set records a configuration value of the case.
func (c *Case) Set(k string, v any) {
	c.cfg = append(c.cfg, kv{k, v})
	c.h.add(k + "=" + fmt.Sprint(v))
}

// Op appends one operation / step to the case's canonical rendering.
func (c *Case) Op(format string, args ...any) {
	s := format
	if len(args) > 0 {
		s = fmt.Sprintf(format, args...)
	}
	c.h.add(s)
	c.nOps++
	if len(c.ops) < maxSampleOps {
		c.ops = append(c.ops, s)
	}
}

// Label classifies the case; each label is counted once per case.
func (c *Case) Label(l string) { c.labels[l] = struct{}{} }

// Labelf is Label with formatting.
func (c *Case) Labelf(format string, args ...any) { c.Label(fmt.Sprintf(format, args...)) }

// Has reports whether the label was set on this case.
func (c *Case) Has(l string) bool { _, ok := c.labels[l]; return ok }

// NonTrivial marks the case as non-trivial by the check's rule.
func (c *Case) NonTrivial() { c.nontrivial = true }

// Count adds to a named run-wide counter (e.g. number of packets checked).
func (c *Case) Count(name string, n int64) {
	c.r.mu.Lock()
	c.r.counters[name] += n
	c.r.mu.Unlock()
}

// Known counts an occurrence of a listed known finding that the oracle
// excluded by construction.
func (c *Case) Known(id string) {
	c.r.mu.Lock()
	c.r.known[id]++
	c.r.mu.Unlock()
}

func (c *Case) render() map[string]any {
	m := map[string]any{}
	cfg := map[string]any{}
	for _, e := range c.cfg {
		cfg[e.k] = e.v
	}
	if len(cfg) > 0 {
		m["config"] = cfg
	}
	ops := append([]string(nil), c.ops...)
	if c.nOps > len(ops) {
		ops = append(ops, fmt.Sprintf("... (+%d more steps)", c.nOps-len(ops)))
	}
	if len(ops) > 0 {
		m["ops"] = ops
	}
	ls := make([]string, 0, len(c.labels))
	for l := range c.labels {
		ls = append(ls, l)
	}
	sort.Strings(ls)
	m["labels"] = ls
	return m
}

// Describe returns a readable dump of the case so far (for failure messages).
func (c *Case) Describe() string {
	b, _ := json.MarshalIndent(c.render(), "", " ")
	return string(b)
}

// Fragment is the on-disk form merged by the driver.
type Fragment struct {
	Property      string           `json:"property"`
	Name          string           `json:"name"`
	Rule          string           `json:"rule"`
	Evaluations   int              `json:"evaluations"`
	Skipped       int              `json:"skipped"`
	Distinct      int              `json:"distinct_nontrivial"`
	BulkDistinct  int              `json:"bulk_distinct"`
	HashCapHit    bool             `json:"hash_cap_hit"`
	HashFile      string           `json:"hash_file"`
	Labels        map[string]int   `json:"labels"`
	Counters      map[string]int64 `json:"counters"`
	Samples       []map[string]any `json:"samples"`
	Assumptions   []string         `json:"assumptions"`
	Known         map[string]int   `json:"known_excluded"`
	FailedSeen    bool             `json:"failed_seen"`
	MissingLabels []string         `json:"missing_essential_labels"`
}

// Flush writes the fragment to $VERIF_EV_DIR (no-op when unset).
func (r *Rec) Flush(t testing.TB) {
	r.mu.Lock()
	defer r.mu.Unlock()
	dir := os.Getenv("VERIF_EV_DIR")
	fr := Fragment{
		Property: r.Property, Name: r.Name, Rule: r.Rule,
		Evaluations: r.evaluations, Skipped: r.skipped, Distinct: len(r.hashes) + r.bulkDistinct, BulkDistinct: r.bulkDistinct,
		HashCapHit: r.hashCapHit, Labels: r.labels, Counters: r.counters,
		Assumptions: r.assumptions, Known: r.known, FailedSeen: r.failedSeen,
	}
	for _, s := range r.first {
		fr.Samples = append(fr.Samples, s.Val)
	}
	for _, s := range r.lowest {
		fr.Samples = append(fr.Samples, s.Val)
	}
	if r.evaluations >= r.MinForEssential && r.MinForEssential > 0 {
		for _, l := range r.Essential {
			if r.labels[l] == 0 {
				fr.MissingLabels = append(fr.MissingLabels, l)
			}
		}
	}
	if t != nil {
		t.Logf("[ev] %s/%s: evaluations=%d distinct_nontrivial=%d skipped=%d labels=%s",
			r.Property, r.Name, r.evaluations, len(r.hashes)+r.bulkDistinct, r.skipped, topLabels(r.labels))
	}
	if dir == "" {
		return
	}
	base := fmt.Sprintf("%s.%s.%d", r.Property, strings.ReplaceAll(r.Name, "/", "_"), os.Getpid())
	hf := filepath.Join(dir, base+".hashes")
	buf := make([]byte, 0, 8*len(r.hashes))
	for h := range r.hashes {
		buf = binary.LittleEndian.AppendUint64(buf, h)
	}
	if err := os.WriteFile(hf, buf, 0o644); err == nil {
		fr.HashFile = hf
	}
	b, _ := json.Marshal(fr)
	_ = os.WriteFile(filepath.Join(dir, base+".json"), b, 0o644)
}

func topLabels(m map[string]int) string {
	ks := make([]string, 0, len(m))
	for k := range m {
		ks = append(ks, k)
	}
	sort.Strings(ks)
	var b strings.Builder
	for i, k := range ks {
		if i > 0 {
			b.WriteString(" ")
		}
		fmt.Fprintf(&b, "%s=%d", k, m[k])
	}
	return b.String()
}

// NoPanic runs f (code under test only, no rapid draws inside) and converts a
// panic into a test failure with the stack attached.
func NoPanic(t interface {
	Fatalf(string, ...any)
}, what string, f func()) {
	defer func() {
		if p := recover(); p != nil {
			t.Fatalf("PANIC in %s: %v", what, p)
		}
	}()
	f()
}

// AddBulk records cases of an enumeration whose members are distinct by
// construction (exhaustive sweeps): n evaluations of which nontrivial are
// non-trivial; sample is kept if there is room.
func (r *Rec) AddBulk(n, nontrivial int, labels map[string]int, samples ...map[string]any) {
	r.mu.Lock()
	defer r.mu.Unlock()
	r.evaluations += n
	r.bulkDistinct += nontrivial
	for k, v := range labels {
		r.labels[k] += v
	}
	for _, s := range samples {
		if len(r.first) < firstSamples+lowestSamples {
			r.first = append(r.first, sample{0, s})
		}
	}
}
