// Package ctxio holds the check for C17: context-aware I/O wrappers (netctx
// Conn, netctx PacketConn, deprecated connctx) over net.Pipe, with the
// operation goroutines, the cancellers and the watcher goroutines the
// wrappers spawn all scheduled by the controlled scheduler.
package ctxio

import (
	"bytes"
	"context"
	"errors"
	"fmt"
	"net"
	"sort"
	"strings"
	"sync"
	"sync/atomic"
	"testing"
	"time"

	"github.com/pion/transport/v3/connctx"
	"github.com/pion/transport/v3/netctx"
	"pgregory.net/rapid"

	"verifharness/ev"
	"verifharness/sched"
)

func install(s *sched.Session) {
	netctx.VerifSetHooks(&netctx.VerifHooks{Yield: s.Yield, Spawn: s.Spawn, Adopt: s.Adopt, Retire: s.Retire})
	connctx.VerifSetHooks(&connctx.VerifHooks{Yield: s.Yield, Spawn: s.Spawn, Adopt: s.Adopt, Retire: s.Retire})
}

func uninstall() {
	netctx.VerifSetHooks(nil)
	connctx.VerifSetHooks(nil)
}

// recConn decorates a net.Conn and remembers the last deadlines set on it.
type recConn struct {
	net.Conn
	mu        sync.Mutex
	readDL    time.Time
	writeDL   time.Time
	readSets  int
	writeSets int
}

func (r *recConn) SetReadDeadline(t time.Time) error {
	r.mu.Lock()
	r.readDL = t
	r.readSets++
	r.mu.Unlock()
	return r.Conn.SetReadDeadline(t)
}

func (r *recConn) SetWriteDeadline(t time.Time) error {
	r.mu.Lock()
	r.writeDL = t
	r.writeSets++
	r.mu.Unlock()
	return r.Conn.SetWriteDeadline(t)
}

func (r *recConn) SetDeadline(t time.Time) error {
	r.mu.Lock()
	r.readDL, r.writeDL = t, t
	r.mu.Unlock()
	return r.Conn.SetDeadline(t)
}

func (r *recConn) deadlines() (rd, wd time.Time) {
	r.mu.Lock()
	defer r.mu.Unlock()
	return r.readDL, r.writeDL
}

// packet adapter over a stream conn (as in the package's own tests)
type pktWrap struct{ *recConn }

func (w pktWrap) ReadFrom(p []byte) (int, net.Addr, error) {
	n, err := w.recConn.Read(p)
	return n, w.recConn.RemoteAddr(), err
}
func (w pktWrap) WriteTo(p []byte, _ net.Addr) (int, error) { return w.recConn.Write(p) }

type endpoint interface {
	Read(ctx context.Context, b []byte) (int, error)
	Write(ctx context.Context, b []byte) (int, error)
}

type epNetctx struct{ c netctx.Conn }

func (e epNetctx) Read(ctx context.Context, b []byte) (int, error)  { return e.c.ReadContext(ctx, b) }
func (e epNetctx) Write(ctx context.Context, b []byte) (int, error) { return e.c.WriteContext(ctx, b) }

type epConnctx struct{ c connctx.ConnCtx }

func (e epConnctx) Read(ctx context.Context, b []byte) (int, error)  { return e.c.ReadContext(ctx, b) }
func (e epConnctx) Write(ctx context.Context, b []byte) (int, error) { return e.c.WriteContext(ctx, b) }

type epPacket struct {
	c netctx.PacketConn
	a net.Addr
}

func (e epPacket) Read(ctx context.Context, b []byte) (int, error) {
	n, _, err := e.c.ReadFromContext(ctx, b)
	return n, err
}
func (e epPacket) Write(ctx context.Context, b []byte) (int, error) {
	return e.c.WriteToContext(ctx, b, e.a)
}

var flavours = []string{"netctx.Conn", "connctx", "netctx.PacketConn"}

func mkEndpoint(flavour int, rc *recConn) endpoint {
	switch flavour {
	case 1:
		return epConnctx{connctx.New(rc)}
	case 2:
		return epPacket{netctx.NewPacketConn(pktWrap{rc}), rc.RemoteAddr()}
	}
	return epNetctx{netctx.NewConn(rc)}
}

const (
	ctxLive = iota
	ctxPreCancelled
	ctxCancelledByTask
	ctxPastDeadline
)

var ctxNames = [...]string{"live", "pre-cancelled", "cancel-task", "past-deadline"}

type opPlan struct {
	size int // bytes to write / buffer length
	ctx  int
}

type opResult struct {
	started, returned bool
	n                 int
	err               error
	ctxErr            error
	leftover          string
	data              []byte // reads: bytes received
	cancelled         atomic.Bool
	inProgress        atomic.Bool
	cancelWhen        string
	seq               int64       // order of return among the operations of the run
	task              *sched.Task // the task that issues it
}

type dirPlan struct {
	writes, reads []opPlan
	// wsplit/rsplit > 0: the operations from that index on are issued by a SECOND task on the
	// same end, concurrently with the first ones (the wrappers serialise the operations of one
	// kind: one is inside, the others wait for their turn)
	wsplit, rsplit int
}

type scenario struct {
	flavour int
	dirs    []dirPlan
}

func (sc scenario) String() string {
	var b strings.Builder
	fmt.Fprintf(&b, "%s", flavours[sc.flavour])
	for d, dp := range sc.dirs {
		fmt.Fprintf(&b, " dir%d{w:", d)
		for _, o := range dp.writes {
			fmt.Fprintf(&b, "%d/%s ", o.size, ctxNames[o.ctx])
		}
		b.WriteString("r:")
		for _, o := range dp.reads {
			fmt.Fprintf(&b, "%d/%s ", o.size, ctxNames[o.ctx])
		}
		if dp.wsplit > 0 || dp.rsplit > 0 {
			fmt.Fprintf(&b, "second-task:w%d,r%d", dp.wsplit, dp.rsplit)
		}
		b.WriteString("}")
	}
	return b.String()
}

func genScenario(t *rapid.T) scenario {
	sc := scenario{flavour: rapid.IntRange(0, 2).Draw(t, "flavour")}
	nd := rapid.IntRange(1, 2).Draw(t, "dirs")
	genCtx := func() int {
		k := rapid.IntRange(0, 9).Draw(t, "ctx")
		switch {
		case k < 4:
			return ctxLive
		case k < 8:
			return ctxCancelledByTask
		case k < 9:
			return ctxPreCancelled
		}
		return ctxPastDeadline
	}
	for d := 0; d < nd; d++ {
		var dp dirPlan
		for i, n := 0, rapid.IntRange(1, 4).Draw(t, "nw"); i < n; i++ {
			dp.writes = append(dp.writes, opPlan{rapid.IntRange(1, 40).Draw(t, "wsize"), genCtx()})
		}
		for i, n := 0, rapid.IntRange(1, 4).Draw(t, "nr"); i < n; i++ {
			sz := rapid.IntRange(1, 64).Draw(t, "rbuf")
			if sc.flavour == 2 && sz < 40 && rapid.Bool().Draw(t, "whole") {
				sz = 40 // packet flavour: in half of the reads the buffer holds a whole message
			}
			dp.reads = append(dp.reads, opPlan{sz, genCtx()})
		}
		if rapid.IntRange(0, 3).Draw(t, "second") == 0 {
			if len(dp.writes) > 1 && rapid.Bool().Draw(t, "wsecond") {
				dp.wsplit = rapid.IntRange(1, len(dp.writes)-1).Draw(t, "wsplit")
			}
			if len(dp.reads) > 1 {
				dp.rsplit = rapid.IntRange(1, len(dp.reads)-1).Draw(t, "rsplit")
			}
		}
		sc.dirs = append(sc.dirs, dp)
	}
	if rapid.IntRange(0, 11).Draw(t, "queue") == 0 {
		// an operation waits for its turn behind a parked one and is cancelled there; the
		// parked one is then served and the task that issued it goes on: a live read (write),
		// a cancelled read (write) of a second task, then more live ones
		sc.dirs = sc.dirs[:1]
		live := func(n int) opPlan { return opPlan{n, ctxLive} }
		if rapid.Bool().Draw(t, "queueReads") {
			sc.dirs[0] = dirPlan{
				writes: []opPlan{live(rapid.IntRange(1, 40).Draw(t, "q1")), live(rapid.IntRange(1, 40).Draw(t, "q2"))},
				reads:  []opPlan{live(64), live(64), {64, ctxCancelledByTask}},
				rsplit: 2,
			}
		} else {
			sc.dirs[0] = dirPlan{
				writes: []opPlan{live(rapid.IntRange(1, 40).Draw(t, "q1")), live(rapid.IntRange(1, 40).Draw(t, "q2")), {rapid.IntRange(1, 40).Draw(t, "q3"), ctxCancelledByTask}},
				reads:  []opPlan{live(64), live(64)},
				wsplit: 2,
			}
		}
		return sc
	}
	if rapid.IntRange(0, 5).Draw(t, "focus") == 0 {
		// nothing but one operation whose context is cancelled by a task, its watcher and
		// (for a write) at most one short read: few tasks, so the orders "cancelled and
		// watcher finished before the wrapped call starts" are drawn often
		sc.dirs = sc.dirs[:1]
		if rapid.Bool().Draw(t, "focusWrite") {
			sc.dirs[0].writes = []opPlan{{rapid.IntRange(1, 40).Draw(t, "fsize"), ctxCancelledByTask}}
			sc.dirs[0].reads = nil
			if rapid.Bool().Draw(t, "focusRead") {
				sc.dirs[0].reads = []opPlan{{rapid.IntRange(1, 8).Draw(t, "fbuf"), ctxLive}}
			}
		} else {
			sc.dirs[0].reads = []opPlan{{rapid.IntRange(1, 64).Draw(t, "fbuf"), ctxCancelledByTask}}
			sc.dirs[0].writes = nil
		}
		sc.dirs[0].wsplit, sc.dirs[0].rsplit = 0, 0
	}
	return sc
}

func payload(dir, idx, size int) []byte {
	p := make([]byte, size)
	for i := range p {
		p[i] = byte('A' + (dir*13+idx*7+i)%50)
	}
	return p
}

// run executes the scenario under the chooser; returns "" or a violation.
func run(sc scenario, ch sched.Chooser, c *ev.Case, logf func(string, ...any)) (msg string) {
	fail := func(f string, a ...any) {
		if msg == "" {
			msg = fmt.Sprintf(f, a...)
		}
	}
	s := sched.New()
	// the terminal state is confirmed by two whole-process snapshots: a goroutine of the
	// wrappers that is not a task (and so invisible to the task table) but still on its way
	// keeps the run going
	s.QuiesceGap = 300 * time.Microsecond
	install(s)
	rawA, rawB := net.Pipe()
	recA, recB := &recConn{Conn: rawA}, &recConn{Conn: rawB}
	epA, epB := mkEndpoint(sc.flavour, recA), mkEndpoint(sc.flavour, recB)
	defer func() {
		s.Abort()
		_ = rawA.Close()
		_ = rawB.Close()
		if left := s.Drain(2 * time.Second); left > 0 && c != nil {
			c.Count("leaked_goroutines", int64(left))
		}
		uninstall()
	}()
	type dirState struct {
		wres, rres []*opResult
	}
	var returns atomic.Int64
	ds := make([]*dirState, len(sc.dirs))
	mkCtx := func(kind int) (context.Context, context.CancelFunc) {
		switch kind {
		case ctxPreCancelled:
			ctx, cancel := context.WithCancel(context.Background())
			cancel()
			return ctx, cancel
		case ctxCancelledByTask:
			return context.WithCancel(context.Background())
		case ctxPastDeadline:
			return context.WithDeadline(context.Background(), time.Unix(10, 0))
		}
		return context.Background(), func() {}
	}
	for d, dp := range sc.dirs {
		d, dp := d, dp
		st := &dirState{}
		ds[d] = st
		wep, rep := epA, epB
		wrec, rrec := recA, recB
		if d == 1 {
			wep, rep = epB, epA
			wrec, rrec = recB, recA
		}
		type prepared struct {
			ctx    context.Context
			cancel context.CancelFunc
			res    *opResult
		}
		prep := func(ops []opPlan, isWrite bool) []prepared {
			var out []prepared
			for i, o := range ops {
				ctx, cancel := mkCtx(o.ctx)
				res := &opResult{}
				if o.ctx == ctxPreCancelled || o.ctx == ctxPastDeadline {
					res.cancelled.Store(true)
				}
				out = append(out, prepared{ctx, cancel, res})
				if o.ctx == ctxCancelledByTask {
					name := fmt.Sprintf("cancel-%s%d.%d", map[bool]string{true: "w", false: "r"}[isWrite], d, i)
					p := out[len(out)-1]
					s.Go(name, func() {
						switch {
						case p.res.returned:
							p.res.cancelWhen = "after"
						case p.res.inProgress.Load():
							p.res.cancelWhen = "during"
						default:
							p.res.cancelWhen = "before"
						}
						p.cancel()
						p.res.cancelled.Store(true)
					})
				}
			}
			return out
		}
		wp := prep(dp.writes, true)
		rp := prep(dp.reads, false)
		for _, p := range wp {
			st.wres = append(st.wres, p.res)
		}
		for _, p := range rp {
			st.rres = append(st.rres, p.res)
		}
		writer := func(from, to int) func() {
			return func() {
				for i := from; i < to; i++ {
					o := dp.writes[i]
					p := wp[i]
					data := payload(d, i, o.size)
					p.res.started = true
					p.res.inProgress.Store(true)
					n, err := wep.Write(p.ctx, data)
					p.res.inProgress.Store(false)
					p.res.n, p.res.err, p.res.ctxErr = n, err, p.ctx.Err()
					if _, wd := wrec.deadlines(); !wd.IsZero() {
						p.res.leftover = fmt.Sprintf("write deadline %v", wd)
					}
					p.res.seq = returns.Add(1)
					p.res.returned = true
				}
			}
		}
		reader := func(from, to int) func() {
			return func() {
				for i := from; i < to; i++ {
					o := dp.reads[i]
					p := rp[i]
					buf := make([]byte, o.size)
					p.res.started = true
					p.res.inProgress.Store(true)
					n, err := rep.Read(p.ctx, buf)
					p.res.inProgress.Store(false)
					p.res.n, p.res.err, p.res.ctxErr = n, err, p.ctx.Err()
					p.res.data = append([]byte(nil), buf[:max(n, 0)]...)
					if rd, _ := rrec.deadlines(); !rd.IsZero() {
						p.res.leftover = fmt.Sprintf("read deadline %v", rd)
					}
					p.res.seq = returns.Add(1)
					p.res.returned = true
				}
			}
		}
		spawn := func(name string, body func(from, to int) func(), res []*opResult, split int) {
			if split <= 0 || split >= len(res) {
				split = len(res)
			}
			t1 := s.Go(name, body(0, split))
			for _, r := range res[:split] {
				r.task = t1
			}
			if split < len(res) {
				t2 := s.Go(name+"b", body(split, len(res)))
				for _, r := range res[split:] {
					r.task = t2
				}
				if c != nil {
					c.Label("second-task-on-one-end")
				}
			}
		}
		spawn(fmt.Sprintf("writer%d", d), writer, st.wres, dp.wsplit)
		spawn(fmt.Sprintf("reader%d", d), reader, st.rres, dp.rsplit)
	}

	s.Run(ch)
	if s.Discarded {
		if c != nil {
			c.Label("discarded/step-limit")
		}
		return ""
	}
	logf("terminal state:\n%s", s.Describe())
	returnedNow := func() int64 { return returns.Load() }
	atTerminal := returnedNow()
	defer func() {
		// a violation read off the terminal state must be a property of a state that stays as it
		// is: if an operation returns while nobody is granted a step, the state was not terminal
		// (the machine stood still while the snapshots were taken) and the run decides nothing
		if msg != "" {
			time.Sleep(20 * time.Millisecond)
			if returnedNow() != atTerminal {
				fmt.Printf("VERIF-INFRA: the state judged was not terminal (an operation returned afterwards without being granted a step): %s\n", msg)
				msg = "VERIF-INFRA: state judged was not terminal: " + msg
			}
		}
	}()
	for _, t := range s.Tasks() {
		if p := t.Panicked(); p != nil {
			fail("C17: task %s panicked: %v", t.Name, p)
			return
		}
	}
	for d, st := range ds {
		// liveInFlight: an operation of this kind is in flight with a live context (it may be
		// the one inside the wrapper; the others of its kind wait for their turn behind it, and
		// waiting for one's turn is not interrupted by the context)
		liveInFlight := func(res []*opResult) bool {
			for _, r := range res {
				if r.started && !r.returned && !r.cancelled.Load() {
					return true
				}
			}
			return false
		}
		check := func(kind string, ops []opPlan, res []*opResult) {
			for i, r := range res {
				if !r.started {
					continue
				}
				if !r.returned {
					// in flight at quiescence: must be parked with a live context, or wait for
					// its turn behind an operation that is
					if r.cancelled.Load() && liveInFlight(res) {
						if c != nil {
							c.Label("cancelled-while-waiting-for-its-turn")
						}
						continue
					}
					if r.cancelled.Load() {
						st, fr := r.task.WaitInfo()
						fail("C17: %s %d of direction %d (%s, context %s) has not returned although its context is done; parked in [%s] at %s\n%s",
							kind, i, d, flavours[sc.flavour], ctxNames[ops[i].ctx], st, fr, s.Describe())
					}
					continue
				}
				if r.leftover != "" {
					fail("C17: after %s %d of direction %d (%s, context %s, n=%d err=%v) returned, the wrapped connection still carries a %s",
						kind, i, d, flavours[sc.flavour], ctxNames[ops[i].ctx], r.n, r.err, r.leftover)
				}
				if r.n == 0 {
					if r.ctxErr == nil {
						fail("C17: %s %d of direction %d returned 0 bytes (err=%v) although its context is live", kind, i, d, r.err)
					} else if !errors.Is(r.err, r.ctxErr) {
						fail("C17: %s %d of direction %d was cancelled with 0 bytes transferred but returned %v, want the context's error %v", kind, i, d, r.err, r.ctxErr)
					}
				}
				if r.n < 0 || r.n > ops[i].size {
					fail("C17: %s %d of direction %d reported %d bytes for a %d-byte buffer", kind, i, d, r.n, ops[i].size)
				}
				if r.cancelWhen != "" && c != nil {
					c.Label("cancel/" + r.cancelWhen)
					if r.cancelWhen == "during" {
						c.NonTrivial()
					}
				}
			}
		}
		check("write", sc.dirs[d].writes, st.wres)
		check("read", sc.dirs[d].reads, st.rres)
		if msg != "" {
			return
		}
		if liveInFlight(st.wres) && liveInFlight(st.rres) {
			fail("C17: direction %d: a write and a read with live contexts are both parked, no data moves\n%s", d, s.Describe())
			return
		}
		// stream accounting
		// operations of one kind are served one at a time, in the order in which they return
		var sent, got bytes.Buffer
		var inflights [][]byte
		bySeq := func(res []*opResult) []int {
			var idx []int
			for i, r := range res {
				if r.returned {
					idx = append(idx, i)
				}
			}
			sort.Slice(idx, func(a, b int) bool { return res[idx[a]].seq < res[idx[b]].seq })
			return idx
		}
		for _, i := range bySeq(st.wres) {
			sent.Write(payload(d, i, sc.dirs[d].writes[i].size)[:st.wres[i].n])
		}
		for i, r := range st.wres {
			if r.started && !r.returned {
				inflights = append(inflights, payload(d, i, sc.dirs[d].writes[i].size))
			}
		}
		for _, i := range bySeq(st.rres) {
			got.Write(st.rres[i].data)
		}
		g, w := got.Bytes(), sent.Bytes()
		// net.Pipe moves a byte only into a Read call and a Write reports what
		// reads have consumed, so: received == reported written + a prefix of
		// the write still in flight.
		if len(g) < len(w) {
			fail("C17: direction %d (%s): %d bytes were reported written but the reads returned only %d: data consumed by a cancelled read was lost (written %q, received %q)",
				d, flavours[sc.flavour], len(w), len(g), w, g)
			return
		}
		prefixOfOne := len(g) == len(w) // at most one of the writes in flight is inside the wrapped call
		for _, f := range inflights {
			prefixOfOne = prefixOfOne || bytes.HasPrefix(f, g[len(w):])
		}
		if !bytes.Equal(g[:len(w)], w) || !prefixOfOne {
			fail("C17: direction %d (%s): bytes received differ from the bytes reported written plus a write in flight: received %q, reported written %q, in flight %q",
				d, flavours[sc.flavour], g, w, inflights)
			return
		}
	}
	if c != nil {
		c.Count("schedules", 1)
		c.Count("steps", int64(s.Steps()))
	}
	return msg
}

type chooserFunc func(s *sched.Session, en []*sched.Task) *sched.Task

func (f chooserFunc) Pick(s *sched.Session, en []*sched.Task) *sched.Task { return f(s, en) }

const ruleC17 = "rapid-drawn program over a net.Pipe wrapped by netctx.Conn, connctx or netctx.PacketConn (1..2 directions, per direction 1..4 writes of 1..40 bytes and 1..4 reads, in a quarter of the programs issued by two tasks per end so that operations of one kind wait for their turn behind each other, each with its own context: live / cancelled before the call / cancelled by a canceller task / deadline in the past) and a rapid-drawn schedule over every lock, channel, select, WaitGroup and go statement of the yield-instrumented wrapper files, with the wrappers' watcher goroutines adopted as tasks; a recording decorator remembers the deadlines set on the wrapped conn; oracle at quiescence: every operation whose context is done has returned (unless it waits for its turn behind an operation of its kind with a live context), 0 bytes => the context's error, bytes received == bytes reported written (+ prefix of a write in flight), no read and write of one direction both parked, and after every returned operation the wrapped conn carries no deadline; non-trivial = a cancellation landed while its operation was in progress; distinct by hash of program + step trace"

func TestC17Schedules(t *testing.T) {
	r := ev.New("C17", "schedules", ruleC17)
	r.Essential = []string{"cancel/during", "cancel/before", "cancel/after", "flavour/connctx", "flavour/netctx.PacketConn", "flavour/netctx.Conn", "second-task-on-one-end", "cancelled-while-waiting-for-its-turn"}
	r.MinForEssential = 300
	r.Assume("net.Pipe (stdlib) is the wrapped connection and is taken as atomic; yield granularity = synchronisation operations of netctx/conn.go, netctx/packetconn.go, connctx/connctx.go")
	r.Check(t, func(t *rapid.T, c *ev.Case) {
		sc := genScenario(t)
		rc := sched.NewRapidChooser(t)
		c.Set("program", sc.String())
		c.Label("flavour/" + flavours[sc.flavour])
		c.Label("strategy/" + sched.StrategyNames[rc.Strategy])
		t.Logf("program: %s strategy=%s", sc, sched.StrategyNames[rc.Strategy])
		var trace []string
		msg := run(sc, chooserFunc(func(s *sched.Session, en []*sched.Task) *sched.Task {
			p := rc.Pick(s, en)
			if p != nil {
				trace = append(trace, p.Name+"@"+p.Label())
			}
			return p
		}), c, t.Logf)
		for _, s := range trace {
			c.Op("%s", s)
		}
		if msg != "" {
			t.Fatalf("%s", msg)
		}
	})
}
