package ctxio

import (
	"bytes"
	"context"
	"errors"
	"fmt"
	"github.com/pion/logging"
	"github.com/pion/transport/v3/dpipe"
	"github.com/pion/transport/v3/vnet"
	"net"
	"sync"
	"sync/atomic"
	"testing"
	"time"

	"github.com/pion/transport/v3/netctx"
	"pgregory.net/rapid"

	"verifharness/ev"
)

// recPacketConn decorates a net.PacketConn and remembers the last deadlines set on it.
type recPacketConn struct {
	net.PacketConn
	mu      sync.Mutex
	readDL  time.Time
	writeDL time.Time
}

func (r *recPacketConn) SetReadDeadline(t time.Time) error {
	r.mu.Lock()
	r.readDL = t
	r.mu.Unlock()
	return r.PacketConn.SetReadDeadline(t)
}

func (r *recPacketConn) SetWriteDeadline(t time.Time) error {
	r.mu.Lock()
	r.writeDL = t
	r.mu.Unlock()
	return r.PacketConn.SetWriteDeadline(t)
}

func (r *recPacketConn) SetDeadline(t time.Time) error {
	r.mu.Lock()
	r.readDL, r.writeDL = t, t
	r.mu.Unlock()
	return r.PacketConn.SetDeadline(t)
}

func (r *recPacketConn) deadlines() (rd, wd time.Time) {
	r.mu.Lock()
	defer r.mu.Unlock()
	return r.readDL, r.writeDL
}

type dlRec interface{ deadlines() (time.Time, time.Time) }

// free-running context kinds
const (
	fcLong      = iota // fires after 1 s: stands for a live context (also the guard against hangs)
	fcPre              // cancelled before the call
	fcTimeout          // context.WithTimeout(d)
	fcCancelAft        // cancel() called by a timer after d
)

var fcNames = [...]string{"long", "pre-cancelled", "timeout", "cancel-after"}

// the instants are drawn from one small set so that cancellations, arrivals
// and completions collide often
var fcDelays = []time.Duration{0, 20 * time.Microsecond, 50 * time.Microsecond, 100 * time.Microsecond, 200 * time.Microsecond, 500 * time.Microsecond, 2 * time.Millisecond}

type fop struct {
	size  int
	ctx   int
	d     time.Duration // when the context fires
	pause time.Duration // pause before the operation
}

func (o fop) String() string {
	return fmt.Sprintf("%d/%s/%v/+%v", o.size, fcNames[o.ctx], o.d, o.pause)
}

func genFop(t *rapid.T, minSize, maxSize int, reader bool) fop {
	o := fop{size: rapid.IntRange(minSize, maxSize).Draw(t, "size")}
	k := rapid.IntRange(0, 9).Draw(t, "ctx")
	switch {
	case k < 2 && !reader:
		o.ctx = fcLong
	case k < 3:
		o.ctx = fcPre
	case k < 7:
		o.ctx = fcTimeout
	default:
		o.ctx = fcCancelAft
	}
	if reader && o.ctx == fcLong {
		o.ctx = fcTimeout
	}
	o.d = rapid.SampledFrom(fcDelays).Draw(t, "d")
	o.pause = rapid.SampledFrom(fcDelays).Draw(t, "pause")
	return o
}

func mkFreeCtx(o fop) (context.Context, context.CancelFunc) {
	switch o.ctx {
	case fcPre:
		ctx, cancel := context.WithCancel(context.Background())
		cancel()
		return ctx, cancel
	case fcTimeout:
		return context.WithTimeout(context.Background(), o.d)
	case fcCancelAft:
		ctx, cancel := context.WithCancel(context.Background())
		tm := time.AfterFunc(o.d, cancel)
		return ctx, func() { tm.Stop(); cancel() }
	}
	return context.WithTimeout(context.Background(), time.Second)
}

const ruleC17Free = "rapid-drawn program run on free goroutines and the real clock: netctx.Conn or connctx over net.Pipe (stream), netctx.PacketConn over a pair of loopback UDP sockets or over two sockets of a vnet router, or netctx.Conn over a dpipe pair (messages; writes with live contexts only there, because a dpipe end discards its unread messages when a Write meets a passed deadline; the last two report timeouts with errors of their own, not os.ErrDeadlineExceeded); 1..2 directions, per direction 1..6 writes (1..40 bytes; context: 1 s / cancelled before / WithTimeout(d) / cancel() by a timer after d) and 1..6 reads (never a live context), pauses and d drawn from {0, 20, 50, 100, 200, 500 us, 2 ms} so that cancellation, arrival and completion collide; afterwards the reader keeps reading with fresh 20 ms contexts until everything reported written has arrived (these are the probe operations of the statement), then one more read must time out; oracle: 0 bytes with a done context => the context's error; n>0 => nil error (stream: short writes carry the wrapped error); bytes (stream) or messages (packets, in order) received == reported written, nothing beyond; after every returned operation the recorded deadline of the wrapped connection for that direction is zero; an operation returns within 2 s of its context firing; non-trivial = some operation transferred data although its context fired between its start and its return (measured with context.AfterFunc); distinct by hash of the program"

func TestC17FreeRunning(t *testing.T) {
	r := ev.New("C17", "free-running", ruleC17Free)
	r.Essential = []string{"flavour/netctx.Conn", "flavour/connctx", "flavour/udp-packet", "flavour/vnet-packet", "flavour/dpipe-messages", "cancelled/zero-bytes", "cancelled/with-data"}
	r.MinForEssential = 200
	r.Assume("loopback UDP between two sockets of this process neither loses nor reorders datagrams at one datagram in flight per direction")
	r.Check(t, func(t *rapid.T, c *ev.Case) {
		flavour := rapid.IntRange(0, 4).Draw(t, "flavour")
		var epA, epB endpoint
		var recA, recB dlRec
		stream := flavour < 2
		name := ""
		if flavour < len(flavours) {
			name = flavours[flavour]
		}
		switch {
		case flavour == 3:
			// netctx.PacketConn over sockets of the module's own virtual network: their timeout
			// error is a *net.OpError of their own making, not os.ErrDeadlineExceeded
			name = "vnet-packet"
			router, err := vnet.NewRouter(&vnet.RouterConfig{CIDR: "10.9.0.0/24", LoggerFactory: quietLF()})
			if err != nil {
				t.Fatalf("VERIF-INFRA: %v", err)
			}
			na, _ := vnet.NewNet(&vnet.NetConfig{StaticIPs: []string{"10.9.0.1"}})
			nb, _ := vnet.NewNet(&vnet.NetConfig{StaticIPs: []string{"10.9.0.2"}})
			for _, e := range []error{router.AddNet(na), router.AddNet(nb), router.Start()} {
				if e != nil {
					t.Fatalf("VERIF-INFRA: %v", e)
				}
			}
			defer router.Stop() //nolint:errcheck
			va, err := na.ListenPacket("udp4", "10.9.0.1:5000")
			if err != nil {
				t.Fatalf("VERIF-INFRA: %v", err)
			}
			vb, err := nb.ListenPacket("udp4", "10.9.0.2:5000")
			if err != nil {
				t.Fatalf("VERIF-INFRA: %v", err)
			}
			defer va.Close() //nolint:errcheck
			defer vb.Close() //nolint:errcheck
			a, b := &recPacketConn{PacketConn: va}, &recPacketConn{PacketConn: vb}
			epA = epPacket{netctx.NewPacketConn(a), vb.LocalAddr()}
			epB = epPacket{netctx.NewPacketConn(b), va.LocalAddr()}
			recA, recB = a, b
		case flavour == 4:
			// netctx.Conn over the module's datagram pipe: one message per read, and again a
			// timeout error of its own
			name = "dpipe-messages"
			rawA, rawB := dpipe.Pipe()
			a, b := &recConn{Conn: rawA}, &recConn{Conn: rawB}
			defer rawA.Close() //nolint:errcheck
			defer rawB.Close() //nolint:errcheck
			epA, epB, recA, recB = mkEndpoint(0, a), mkEndpoint(0, b), a, b
		case stream:
			rawA, rawB := net.Pipe()
			a, b := &recConn{Conn: rawA}, &recConn{Conn: rawB}
			defer rawA.Close() //nolint:errcheck
			defer rawB.Close() //nolint:errcheck
			epA, epB, recA, recB = mkEndpoint(flavour, a), mkEndpoint(flavour, b), a, b
		default:
			name = "udp-packet"
			ua, err := net.ListenUDP("udp4", &net.UDPAddr{IP: net.IPv4(127, 0, 0, 1)})
			if err != nil {
				t.Fatalf("VERIF-INFRA: %v", err)
			}
			ub, err := net.ListenUDP("udp4", &net.UDPAddr{IP: net.IPv4(127, 0, 0, 1)})
			if err != nil {
				ua.Close() //nolint:errcheck
				t.Fatalf("VERIF-INFRA: %v", err)
			}
			defer ua.Close() //nolint:errcheck
			defer ub.Close() //nolint:errcheck
			a, b := &recPacketConn{PacketConn: ua}, &recPacketConn{PacketConn: ub}
			epA = epPacket{netctx.NewPacketConn(a), ub.LocalAddr()}
			epB = epPacket{netctx.NewPacketConn(b), ua.LocalAddr()}
			recA, recB = a, b
		}
		c.Label("flavour/" + name)
		nd := rapid.IntRange(1, 2).Draw(t, "dirs")
		type plan struct{ w, r []fop }
		plans := make([]plan, nd)
		for d := range plans {
			for i, n := 0, rapid.IntRange(1, 6).Draw(t, "nw"); i < n; i++ {
				w := genFop(t, 1, 40, false)
				if flavour == 4 {
					// a dpipe end empties its buffer of written, not yet read messages when a
					// Write meets a passed write deadline (dpipe.cleanWriteBuffer): it is not a
					// lossless wrapped connection under cancelled writes, and "bytes received ==
					// bytes reported written" is a statement about the wrappers, not about it.
					// Writes run with live contexts here; the reads are cancelled as usual.
					w.ctx = fcLong
				}
				plans[d].w = append(plans[d].w, w)
			}
			for i, n := 0, rapid.IntRange(1, 6).Draw(t, "nr"); i < n; i++ {
				lo := 1
				if !stream {
					lo = 40
				}
				plans[d].r = append(plans[d].r, genFop(t, lo, 64, true))
			}
			c.Op("dir%d w%v r%v", d, plans[d].w, plans[d].r)
		}
		t.Logf("%s %v", name, plans)

		var mu sync.Mutex
		var violation string
		fail := func(f string, a ...any) {
			mu.Lock()
			if violation == "" {
				violation = fmt.Sprintf(f, a...)
			}
			mu.Unlock()
		}
		var zeroCancelled, dataCancelled atomic.Int64
		// one operation with all per-operation checks
		do := func(kind string, d, i int, o fop, ep endpoint, rec dlRec, buf []byte) (int, error) {
			if o.pause > 0 {
				time.Sleep(o.pause)
			}
			ctx, cancel := mkFreeCtx(o)
			defer cancel()
			var firedAt atomic.Int64
			stopAF := context.AfterFunc(ctx, func() { firedAt.Store(time.Now().UnixNano()) })
			defer stopAF()
			start := time.Now()
			var n int
			var err error
			if kind == "write" {
				n, err = ep.Write(ctx, buf)
			} else {
				n, err = ep.Read(ctx, buf)
			}
			ret := time.Now()
			ctxErr := ctx.Err()
			rd, wd := rec.deadlines()
			left := rd
			if kind == "write" {
				left = wd
			}
			if !left.IsZero() {
				fail("C17: after %s %d of direction %d (%s, %v, n=%d err=%v) returned, the wrapped connection still carries the %s deadline %v", kind, i, d, name, o, n, err, kind, left)
			}
			if n < 0 || n > len(buf) {
				fail("C17: %s %d of direction %d reported %d bytes for a %d-byte buffer", kind, i, d, n, len(buf))
			}
			if n == 0 {
				if ctxErr == nil {
					fail("C17: %s %d of direction %d (%s, %v) returned 0 bytes, err=%v, although its context is live", kind, i, d, name, o, err)
				} else if !errors.Is(err, ctxErr) {
					fail("C17: %s %d of direction %d (%s, %v) transferred nothing under a done context but returned %v, want %v", kind, i, d, name, o, err, ctxErr)
				}
				zeroCancelled.Add(1)
			} else if f := firedAt.Load(); f != 0 && f > start.UnixNano() && f < ret.UnixNano() {
				// the context fired while the operation was running and it still transferred data
				dataCancelled.Add(1)
			}
			if n > 0 && err != nil && (kind == "read" || n == len(buf)) {
				fail("C17: %s %d of direction %d (%s, %v) transferred %d bytes and returned the error %v", kind, i, d, name, o, n, err)
			}
			if dl, ok := ctx.Deadline(); ok && ret.Sub(dl) > 2*time.Second && ctxErr != nil {
				fail("C17: %s %d of direction %d (%s, %v) returned %v after its context's deadline", kind, i, d, name, o, ret.Sub(dl))
			}
			return n, err
		}

		var wg sync.WaitGroup
		for d := range plans {
			d := d
			wep, rep, wrec, rrec := epA, epB, recA, recB
			if d == 1 {
				wep, rep, wrec, rrec = epB, epA, recB, recA
			}
			var sentStream bytes.Buffer
			var sentMsgs [][]byte
			var writerDone atomic.Bool
			var sentBytes atomic.Int64
			var sentCount atomic.Int64
			wg.Add(2)
			go func() {
				defer wg.Done()
				defer writerDone.Store(true)
				for i, o := range plans[d].w {
					data := payload(d, i, o.size)
					n, _ := do("write", d, i, o, wep, wrec, append([]byte(nil), data...))
					if n <= 0 {
						continue
					}
					mu.Lock()
					if stream {
						sentStream.Write(data[:n])
					} else {
						sentMsgs = append(sentMsgs, data[:n])
					}
					mu.Unlock()
					sentBytes.Add(int64(n))
					sentCount.Add(1)
				}
			}()
			go func() {
				defer wg.Done()
				var gotStream bytes.Buffer
				var gotMsgs [][]byte
				take := func(buf []byte, n int) {
					if n <= 0 {
						return
					}
					if stream {
						gotStream.Write(buf[:n])
					} else {
						gotMsgs = append(gotMsgs, append([]byte(nil), buf[:n]...))
					}
				}
				for i, o := range plans[d].r {
					buf := make([]byte, o.size)
					n, _ := do("read", d, i, o, rep, rrec, buf)
					take(buf, n)
				}
				// probes with fresh contexts until everything reported written has arrived
				guard := time.Now().Add(3 * time.Second)
				complete := func() bool {
					if !writerDone.Load() {
						return false
					}
					if stream {
						return int64(gotStream.Len()) >= sentBytes.Load()
					}
					return int64(len(gotMsgs)) >= sentCount.Load()
				}
				for i := 0; !complete(); i++ {
					if time.Now().After(guard) {
						fail("C17: direction %d (%s): the writes reported %d bytes in %d operations, after 3 s of reads with fresh contexts only %d bytes / %d messages have arrived (data lost, or a leftover deadline keeps timing the reads out)",
							d, name, sentBytes.Load(), sentCount.Load(), gotStream.Len(), len(gotMsgs))
						return
					}
					buf := make([]byte, 64)
					n, _ := do("probe-read", d, i, fop{size: 64, ctx: fcTimeout, d: 20 * time.Millisecond}, rep, rrec, buf)
					take(buf, n)
				}
				// nothing beyond
				buf := make([]byte, 64)
				ctx, cancel := context.WithTimeout(context.Background(), 3*time.Millisecond)
				n, _ := rep.Read(ctx, buf)
				cancel()
				take(buf, n)
				mu.Lock()
				defer mu.Unlock()
				if stream {
					if !bytes.Equal(gotStream.Bytes(), sentStream.Bytes()) {
						m := fmt.Sprintf("C17: direction %d (%s): bytes received differ from the bytes reported written: received %q, reported written %q", d, name, gotStream.Bytes(), sentStream.Bytes())
						if violation == "" {
							violation = m
						}
					}
					return
				}
				ok := len(gotMsgs) == len(sentMsgs)
				for i := 0; ok && i < len(gotMsgs); i++ {
					ok = bytes.Equal(gotMsgs[i], sentMsgs[i])
				}
				if !ok && violation == "" {
					violation = fmt.Sprintf("C17: direction %d (%s): messages received differ from the messages reported written: received %q, reported written %q", d, name, gotMsgs, sentMsgs)
				}
			}()
		}
		done := make(chan struct{})
		go func() { wg.Wait(); close(done) }()
		select {
		case <-done:
		case <-time.After(20 * time.Second):
			t.Fatalf("C17: %s: operations still running 20 s after every context has fired", name)
		}
		if violation != "" {
			t.Fatalf("%s", violation)
		}
		if zeroCancelled.Load() > 0 {
			c.Label("cancelled/zero-bytes")
		}
		if dataCancelled.Load() > 0 {
			c.Label("cancelled/with-data")
			c.NonTrivial()
		}
		c.Count("ops_cancelled_zero", zeroCancelled.Load())
		c.Count("ops_cancelled_with_data", dataCancelled.Load())
	})
}

func quietLF() logging.LoggerFactory {
	lf := logging.NewDefaultLoggerFactory()
	lf.DefaultLogLevel = logging.LogLevelDisabled
	return lf
}
