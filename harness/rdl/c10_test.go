// Package rdl holds the check for C10: read deadlines of every connection
// type of the module that accepts one, on the real clock.
package rdl

import (
	"context"
	"errors"
	"fmt"
	"math"
	"net"
	"os"
	"runtime"
	"strings"
	"sync"
	"testing"
	"time"

	"github.com/pion/logging"
	"github.com/pion/transport/v3/dpipe"
	"github.com/pion/transport/v3/packetio"
	ttest "github.com/pion/transport/v3/test"
	"github.com/pion/transport/v3/udp"
	"github.com/pion/transport/v3/vnet"
	"pgregory.net/rapid"

	"verifharness/ev"
	"verifharness/sched"
)

// strayer is implemented by adapters whose connection silently discards
// data from other sources (a connected vnet socket): Stray supplies such data.
type strayer interface{ Stray() error }

type adapter interface {
	Name() string
	SetReadDeadline(time.Time) error
	Read([]byte) (int, error)
	Inject([]byte) error
	Close()
}

// ---- adapters ---------------------------------------------------------------

type bufAdapter struct{ b *packetio.Buffer }

func (a *bufAdapter) Name() string                      { return "packetio.Buffer" }
func (a *bufAdapter) SetReadDeadline(t time.Time) error { return a.b.SetReadDeadline(t) }
func (a *bufAdapter) Read(p []byte) (int, error)        { return a.b.Read(p) }
func (a *bufAdapter) Inject(p []byte) error             { _, err := a.b.Write(p); return err }
func (a *bufAdapter) Close()                            { _ = a.b.Close() }

type connAdapter struct {
	name   string
	rd     net.Conn
	inject func([]byte) error
	close  func()
}

func (a *connAdapter) Name() string                      { return a.name }
func (a *connAdapter) SetReadDeadline(t time.Time) error { return a.rd.SetReadDeadline(t) }
func (a *connAdapter) SetDeadline(t time.Time) error     { return a.rd.SetDeadline(t) }
func (a *connAdapter) Read(p []byte) (int, error)        { return a.rd.Read(p) }
func (a *connAdapter) Inject(p []byte) error             { return a.inject(p) }
func (a *connAdapter) Close()                            { a.close() }

func newDpipe() adapter {
	x, y := dpipe.Pipe()
	return &connAdapter{"dpipe", x, func(p []byte) error { _, err := y.Write(p); return err }, func() { _ = x.Close(); _ = y.Close() }}
}

func newUDP() (adapter, error) {
	ln, err := udp.Listen("udp", &net.UDPAddr{IP: net.IPv4(127, 0, 0, 1)})
	if err != nil {
		return nil, err
	}
	rem, err := net.DialUDP("udp", nil, ln.Addr().(*net.UDPAddr))
	if err != nil {
		return nil, err
	}
	if _, err = rem.Write([]byte("hello")); err != nil {
		return nil, err
	}
	cn, err := ln.Accept()
	if err != nil {
		return nil, err
	}
	buf := make([]byte, 64)
	if _, err = cn.Read(buf); err != nil {
		return nil, err
	}
	return &connAdapter{"udp.Conn", cn, func(p []byte) error { _, err := rem.Write(p); return err },
		func() { _ = cn.Close(); _ = ln.Close(); _ = rem.Close() }}, nil
}

func newVnet() (adapter, error) {
	lf := logging.NewDefaultLoggerFactory()
	lf.DefaultLogLevel = logging.LogLevelDisabled
	r, err := vnet.NewRouter(&vnet.RouterConfig{CIDR: "10.0.0.0/24", LoggerFactory: lf})
	if err != nil {
		return nil, err
	}
	a, _ := vnet.NewNet(&vnet.NetConfig{StaticIPs: []string{"10.0.0.2"}})
	b, _ := vnet.NewNet(&vnet.NetConfig{StaticIPs: []string{"10.0.0.3"}})
	if err = r.AddNet(a); err != nil {
		return nil, err
	}
	if err = r.AddNet(b); err != nil {
		return nil, err
	}
	if err = r.Start(); err != nil {
		return nil, err
	}
	rc, err := a.ListenUDP("udp", &net.UDPAddr{IP: net.ParseIP("10.0.0.2"), Port: 5000})
	if err != nil {
		return nil, err
	}
	wc, err := b.ListenUDP("udp", &net.UDPAddr{IP: net.ParseIP("10.0.0.3"), Port: 5000})
	if err != nil {
		return nil, err
	}
	dst := &net.UDPAddr{IP: net.ParseIP("10.0.0.2"), Port: 5000}
	return &connAdapter{"vnet.UDPConn", udpAsConn{rc}, func(p []byte) error { _, err := wc.WriteTo(p, dst); return err },
		func() { _ = rc.Close(); _ = wc.Close(); _ = r.Stop() }}, nil
}

type vnetConnected struct {
	connAdapter
	stray func() error
}

func (v *vnetConnected) Stray() error { return v.stray() }

func newVnetConnected() (adapter, error) {
	lf := logging.NewDefaultLoggerFactory()
	lf.DefaultLogLevel = logging.LogLevelDisabled
	r, err := vnet.NewRouter(&vnet.RouterConfig{CIDR: "10.0.0.0/24", LoggerFactory: lf})
	if err != nil {
		return nil, err
	}
	a, _ := vnet.NewNet(&vnet.NetConfig{StaticIPs: []string{"10.0.0.2"}})
	b, _ := vnet.NewNet(&vnet.NetConfig{StaticIPs: []string{"10.0.0.3"}})
	x, _ := vnet.NewNet(&vnet.NetConfig{StaticIPs: []string{"10.0.0.4"}})
	for _, n := range []*vnet.Net{a, b, x} {
		if err = r.AddNet(n); err != nil {
			return nil, err
		}
	}
	if err = r.Start(); err != nil {
		return nil, err
	}
	peer := &net.UDPAddr{IP: net.ParseIP("10.0.0.3"), Port: 5000}
	self := &net.UDPAddr{IP: net.ParseIP("10.0.0.2"), Port: 5000}
	rc, err := a.DialUDP("udp", &net.UDPAddr{IP: net.ParseIP("10.0.0.2"), Port: 5000}, peer)
	if err != nil {
		return nil, err
	}
	wc, err := b.ListenUDP("udp", &net.UDPAddr{IP: net.ParseIP("10.0.0.3"), Port: 5000})
	if err != nil {
		return nil, err
	}
	xc, err := x.ListenUDP("udp", &net.UDPAddr{IP: net.ParseIP("10.0.0.4"), Port: 5000})
	if err != nil {
		return nil, err
	}
	return &vnetConnected{
		connAdapter: connAdapter{"vnet.UDPConn(connected)", udpAsConn{rc}, func(p []byte) error { _, err := wc.WriteTo(p, self); return err },
			func() { _ = rc.Close(); _ = wc.Close(); _ = xc.Close(); _ = r.Stop() }},
		stray: func() error { _, err := xc.WriteTo([]byte("stray"), self); return err },
	}, nil
}

type udpAsConn struct {
	c interface {
		ReadFrom([]byte) (int, net.Addr, error)
		SetReadDeadline(time.Time) error
		SetDeadline(time.Time) error
		Close() error
	}
}

func (u udpAsConn) Read(p []byte) (int, error)         { n, _, err := u.c.ReadFrom(p); return n, err }
func (u udpAsConn) Write([]byte) (int, error)          { return 0, errors.New("unused") }
func (u udpAsConn) Close() error                       { return u.c.Close() }
func (u udpAsConn) LocalAddr() net.Addr                { return nil }
func (u udpAsConn) RemoteAddr() net.Addr               { return nil }
func (u udpAsConn) SetDeadline(t time.Time) error      { return u.c.SetDeadline(t) }
func (u udpAsConn) SetReadDeadline(t time.Time) error  { return u.c.SetReadDeadline(t) }
func (u udpAsConn) SetWriteDeadline(t time.Time) error { return nil }

func newBridge() adapter {
	br := ttest.NewBridge()
	c0, c1 := br.GetConn0(), br.GetConn1()
	stop := make(chan struct{})
	var wg sync.WaitGroup
	wg.Add(1)
	go func() {
		defer wg.Done()
		for {
			select {
			case <-stop:
				return
			default:
			}
			br.Tick()
			time.Sleep(100 * time.Microsecond)
		}
	}()
	return &connAdapter{"test.Bridge", c0, func(p []byte) error { _, err := c1.Write(p); return err },
		func() {
			close(stop)
			wg.Wait()
			_ = c0.Close()
			_ = c1.Close()
			br.Tick()
			br.Tick()
		}}
}

// ---- history and oracle -------------------------------------------------------

type stepKind int

const (
	stSet stepKind = iota
	stIdle
	stInject
	stRead
	stWait    // wait for the outstanding read (bounded)
	stStray   // data from a source the connection discards (connected sockets only)
	stRefresh // keep-alive: d = iterations; the deadline is set to now+12 ms every 400 us
)

type step struct {
	kind stepKind
	dl   string        // set: "zero", "past", "near", "far", "again" (the very time value of the last non-zero set)
	d    time.Duration // idle duration / near offset
	both bool          // set through SetDeadline (read and write) where the connection type has it
}

func (s step) String() string {
	switch s.kind {
	case stSet:
		via := ""
		if s.both {
			via = ",SetDeadline"
		}
		if s.dl == "near" {
			return fmt.Sprintf("set(+%v%s)", s.d, via)
		}
		return "set(" + s.dl + via + ")"
	case stIdle:
		return fmt.Sprintf("idle(%v)", s.d)
	case stInject:
		return "inject"
	case stRead:
		return "read"
	case stStray:
		return "stray"
	case stRefresh:
		return fmt.Sprintf("refresh(x%d)", int(s.d))
	}
	return "wait"
}

type setRec struct {
	t0, t1 time.Time // call interval of SetReadDeadline
	d      time.Time
}

type readRec struct {
	t0, t1 time.Time
	n      int
	err    error
	done   bool
}

func b2i(b bool) int {
	if b {
		return 1
	}
	return 0
}

func isTimeout(err error) bool {
	var ne net.Error
	if errors.As(err, &ne) && ne.Timeout() {
		return true
	}
	return errors.Is(err, context.DeadlineExceeded) || errors.Is(err, os.ErrDeadlineExceeded)
}

// inForce returns the deadlines that may have been in force at some instant of [a,b].
func inForce(sets []setRec, a, b time.Time) []time.Time {
	var r []time.Time
	if len(sets) == 0 || !sets[0].t0.Before(a) {
		r = append(r, time.Time{}) // the initial "no deadline"
	}
	for k, s := range sets {
		if s.t0.After(b) {
			break
		}
		if k+1 < len(sets) && sets[k+1].t1.Before(a) {
			continue // superseded before the read started
		}
		r = append(r, s.d)
	}
	if len(r) == 0 {
		r = append(r, time.Time{})
	}
	return r
}

// runHistory executes the history on one adapter and returns "" or a violation.
func runHistory(a adapter, hist []step, labels func(string)) string {
	var mu sync.Mutex
	var sets []setRec
	var reads []*readRec
	var cur *readRec
	curDone := make(chan struct{})
	injected := 0
	consumed := 0
	launch := func() {
		r := &readRec{}
		mu.Lock()
		reads = append(reads, r)
		cur = r
		curDone = make(chan struct{})
		done := curDone
		mu.Unlock()
		started := make(chan struct{})
		go func() {
			buf := make([]byte, 64)
			r.t0 = time.Now()
			close(started)
			n, err := a.Read(buf)
			t1 := time.Now()
			mu.Lock()
			r.n, r.err, r.t1, r.done = n, err, t1, true
			mu.Unlock()
			close(done)
		}()
		<-started
	}
	outstanding := func() bool {
		mu.Lock()
		defer mu.Unlock()
		return cur != nil && !cur.done
	}
	var lastBySetter [2]time.Time // the last non-zero value given to SetReadDeadline / SetDeadline
	for _, st := range hist {
		switch st.kind {
		case stSet:
			var d time.Time
			switch st.dl {
			case "again":
				d = lastBySetter[b2i(st.both)]
				if d.IsZero() {
					d = time.Now().Add(15 * time.Millisecond)
				}
			case "past":
				d = time.Now().Add(-time.Second)
			case "near":
				d = time.Now().Add(st.d)
			case "far":
				d = time.Now().Add(10 * time.Second)
			case "farthest":
				// as far away as a time.Time or a time.Duration can say
				d = []time.Time{time.Date(9999, 12, 31, 23, 59, 59, 0, time.UTC), time.Unix(1<<40, 0), time.Now().Add(time.Duration(math.MaxInt64))}[int(st.d)%3]
			}
			if !d.IsZero() {
				lastBySetter[b2i(st.both)] = d
			}
			t0 := time.Now()
			setter := a.SetReadDeadline
			if sd, ok := a.(interface{ SetDeadline(time.Time) error }); ok && st.both {
				setter = sd.SetDeadline
				labels("via-SetDeadline")
			}
			if err := setter(d); err != nil {
				return fmt.Sprintf("%s: SetReadDeadline/SetDeadline returned %v", a.Name(), err)
			}
			mu.Lock()
			sets = append(sets, setRec{t0, time.Now(), d})
			mu.Unlock()
		case stRefresh:
			// the deadline creeps forward in steps far below a millisecond for longer than
			// its own length; a read started on the way must not time out before the
			// deadline in force at that moment
			for k := 0; k < int(st.d); k++ {
				d := time.Now().Add(12 * time.Millisecond)
				t0 := time.Now()
				if err := a.SetReadDeadline(d); err != nil {
					return fmt.Sprintf("%s: SetReadDeadline returned %v", a.Name(), err)
				}
				mu.Lock()
				sets = append(sets, setRec{t0, time.Now(), d})
				mu.Unlock()
				lastBySetter[0] = d
				if k == 5 && !outstanding() {
					launch()
				}
				// paced by spinning: time.Sleep cannot be relied on for steps below a millisecond
				for t := time.Now(); time.Since(t) < 300*time.Microsecond; {
					runtime.Gosched()
				}
			}
			labels("refresh-loop")
		case stIdle:
			time.Sleep(st.d)
		case stInject:
			if err := a.Inject([]byte(fmt.Sprintf("data-%d", injected))); err != nil {
				return fmt.Sprintf("VERIF-INFRA: %s: inject failed: %v", a.Name(), err)
			}
			injected++
		case stStray:
			if sa, ok := a.(strayer); ok {
				if err := sa.Stray(); err != nil {
					return fmt.Sprintf("VERIF-INFRA: %s: stray inject failed: %v", a.Name(), err)
				}
				labels("stray-datagram")
			}
		case stRead:
			if !outstanding() {
				launch()
			}
		case stWait:
			if outstanding() {
				mu.Lock()
				done := curDone
				mu.Unlock()
				select {
				case <-done:
				case <-time.After(60 * time.Millisecond):
				}
			}
		}
	}
	// ---- settle the outstanding read --------------------------------------------
	if outstanding() {
		mu.Lock()
		last := time.Time{}
		if len(sets) > 0 {
			last = sets[len(sets)-1].d
		}
		done := curDone
		r := cur
		mu.Unlock()
		if !last.IsZero() && time.Until(last) < 5*time.Second {
			// a blocked read must be released once its deadline passes
			wait := time.Until(last) + 2*time.Second
			select {
			case <-done:
			case <-time.After(wait):
				where := ""
				for _, g := range sched.Snapshot() {
					if strings.Contains(g.Text, "rdl.runHistory.func1.1") {
						where = g.State + " at " + strings.Join(g.Frames[:min(3, len(g.Frames))], " <- ")
					}
				}
				return fmt.Sprintf("%s: a Read started at +%v is still blocked 2 s after the read deadline passed and was not changed (goroutine: %s)",
					a.Name(), r.t0.Sub(sets[0].t0), where)
			}
			labels("released-by-deadline")
		} else {
			// no (or a far) deadline: data releases it
			_ = a.Inject([]byte("final"))
			injected++
			select {
			case <-done:
			case <-time.After(3 * time.Second):
				return fmt.Sprintf("%s: a Read with no pending deadline did not return within 3 s after data was supplied", a.Name())
			}
		}
	}
	// ---- judge every completed read -------------------------------------------------
	mu.Lock()
	defer mu.Unlock()
	timedOutUnder := map[time.Time]bool{} // deadline value under which a timeout was already observed
	for i, r := range reads {
		if !r.done {
			continue
		}
		ds := inForce(sets, r.t0, r.t1)
		switch {
		case r.err == nil:
			consumed++
			// data: illegal if one unchanged non-zero deadline was in force for the whole
			// call and a read had already timed out under it, or it had passed long ago
			if len(ds) == 1 && !ds[0].IsZero() {
				if timedOutUnder[ds[0]] {
					return fmt.Sprintf("%s: read #%d returned data although an earlier read had already timed out under the same, unchanged deadline", a.Name(), i)
				}
				if r.t0.Sub(ds[0]) > 300*time.Millisecond {
					return fmt.Sprintf("%s: read #%d returned data although the read deadline had passed %v before the call and was not changed", a.Name(), i, r.t0.Sub(ds[0]))
				}
			}
		case isTimeout(r.err):
			legal := false
			for _, d := range ds {
				if !d.IsZero() && !d.After(r.t1) {
					legal = true
				}
			}
			if !legal {
				return fmt.Sprintf("%s: read #%d failed with a timeout at +%v although no deadline in force during the call had passed (deadlines in force: %s)",
					a.Name(), i, r.t1.Sub(r.t0), fmtDeadlines(ds, r.t1))
			}
			labels("timeout")
			if len(ds) == 1 {
				if timedOutUnder[ds[0]] {
					labels("repeated-timeout-after-expiry")
				}
				timedOutUnder[ds[0]] = true
			}
		default:
			return fmt.Sprintf("%s: read #%d failed with %v, which is neither data nor a timeout error", a.Name(), i, r.err)
		}
	}
	if consumed > injected {
		return fmt.Sprintf("%s: %d reads returned data, only %d messages were supplied", a.Name(), consumed, injected)
	}
	return ""
}

func fmtDeadlines(ds []time.Time, ref time.Time) string {
	var s []string
	for _, d := range ds {
		if d.IsZero() {
			s = append(s, "none")
		} else {
			s = append(s, fmt.Sprintf("%v after the return", d.Sub(ref)))
		}
	}
	return strings.Join(s, ", ")
}

func genHistory(t *rapid.T) ([]step, map[string]bool) {
	n := rapid.IntRange(3, 12).Draw(t, "steps")
	var h []step
	feat := map[string]bool{}
	expired := false
	for i := 0; i < n; i++ {
		switch k := rapid.IntRange(0, 99).Draw(t, "k"); {
		case k < 30:
			dl := rapid.SampledFrom([]string{"zero", "past", "near", "near", "near", "far", "farthest"}).Draw(t, "dl")
			st := step{kind: stSet, dl: dl, both: rapid.IntRange(0, 3).Draw(t, "both") == 0}
			if dl == "farthest" {
				st.d = time.Duration(rapid.IntRange(0, 2).Draw(t, "which"))
				feat["farthest-deadline"] = true
			}
			if dl == "near" {
				st.d = time.Duration(rapid.IntRange(8, 30).Draw(t, "ms")) * time.Millisecond
			}
			if expired && (dl == "far" || dl == "farthest" || dl == "zero" || dl == "near") {
				feat["reset-after-expiry"] = true
			}
			if dl == "past" {
				expired = true
			}
			h = append(h, st)
		case k < 50:
			d := time.Duration(rapid.IntRange(0, 40).Draw(t, "idle")) * time.Millisecond
			h = append(h, step{kind: stIdle, d: d})
			if d >= 31*time.Millisecond {
				expired = true // any near deadline has passed by now
				feat["idle-past-deadline"] = true
			}
		case k < 60:
			h = append(h, step{kind: stInject})
		case k < 65:
			h = append(h, step{kind: stStray})
		case k < 82:
			h = append(h, step{kind: stRead})
			if rapid.Bool().Draw(t, "wait") {
				h = append(h, step{kind: stWait})
			}
		case k < 84:
			// keep-alive refreshes for 12..24 ms (the deadline is 12 ms long), a read on the way
			h = append(h, step{kind: stRefresh, d: time.Duration(rapid.IntRange(40, 80).Draw(t, "refreshes"))}, step{kind: stWait})
			expired = true
		case k < 88:
			// a deadline value applied, replaced through the other setter, and applied again
			mid := rapid.SampledFrom([]string{"zero", "far", "past", "near"}).Draw(t, "mid")
			firstBoth := rapid.Bool().Draw(t, "firstBoth")
			h = append(h, step{kind: stSet, dl: "near", d: time.Duration(rapid.IntRange(10, 25).Draw(t, "ms")) * time.Millisecond, both: firstBoth},
				step{kind: stSet, dl: mid, d: 40 * time.Millisecond, both: !firstBoth},
				step{kind: stSet, dl: "again", both: firstBoth},
				step{kind: stRead}, step{kind: stWait})
			feat["reapplied-value"] = true
			expired = true
		case k < 92:
			// expiry seen by two consecutive reads: short deadline, idle past it, read twice
			h = append(h, step{kind: stSet, dl: "near", d: 8 * time.Millisecond}, step{kind: stIdle, d: 12 * time.Millisecond},
				step{kind: stRead}, step{kind: stWait}, step{kind: stRead}, step{kind: stWait})
			if rapid.Bool().Draw(t, "withdata") {
				h = append(h[:len(h)-4], step{kind: stInject}, step{kind: stRead}, step{kind: stWait}, step{kind: stRead}, step{kind: stWait})
			}
			expired = true
		default:
			h = append(h, step{kind: stWait})
		}
	}
	return h, feat
}

const ruleC10 = "rapid-drawn history of 3..12 steps run in parallel on six adapters (packetio.Buffer, dpipe end, udp listener connection on a real loopback socket, vnet UDPConn behind a router, a connected (dialed) vnet UDPConn that also receives 'stray' datagrams from a third host, test.Bridge endpoint with a ticking goroutine): SetReadDeadline or (a quarter of the calls, where the type has it) SetDeadline with zero | 1 s in the past | +8..30 ms | +10 s | the year 9999, Unix(2^40), now + the largest Duration | the very value applied before (after the other setter replaced it), idle 0..40 ms, a keep-alive loop that sets the deadline to now+12 ms every 300 us for 12..24 ms with a read started on the way, supply one message, start a read (at most one outstanding), optionally wait for it; real clock, executed under GODEBUG=asynctimerchan=1 and =0; oracle from monotonic timestamps: a timeout is legal only if a non-zero deadline in force during the call had passed when it returned; data is illegal once a read has timed out under the same unchanged deadline (or the deadline passed > 300 ms before the call); an outstanding read is released within 2 s of its unchanged deadline, or by data when none is pending; non-trivial = a deadline expired while no read was pending and was then extended or cleared before the next read, or two reads after one expiry; distinct by hash of the history"

func TestC10Deadlines(t *testing.T) {
	r := ev.New("C10", "deadlines/"+os.Getenv("GODEBUG"), ruleC10)
	r.Essential = []string{"reset-after-expiry", "repeated-timeout-after-expiry", "released-by-deadline"}
	r.MinForEssential = 40
	r.Assume("real clock; the runtime never fires a timer early; liveness margins of 2-3 s")
	r.Check(t, func(t *rapid.T, c *ev.Case) {
		hist, feat := genHistory(t)
		for _, s := range hist {
			c.Op("%s", s)
		}
		t.Logf("history: %v (GODEBUG=%s)", hist, os.Getenv("GODEBUG"))
		var ads []adapter
		ads = append(ads, &bufAdapter{packetio.NewBuffer()}, newDpipe(), newBridge())
		if u, err := newUDP(); err == nil {
			ads = append(ads, u)
		} else {
			t.Fatalf("VERIF-INFRA: udp adapter: %v", err)
		}
		if v, err := newVnet(); err == nil {
			ads = append(ads, v)
		} else {
			t.Fatalf("VERIF-INFRA: vnet adapter: %v", err)
		}
		if v, err := newVnetConnected(); err == nil {
			ads = append(ads, v)
		} else {
			t.Fatalf("VERIF-INFRA: connected vnet adapter: %v", err)
		}
		var mu sync.Mutex
		seen := map[string]bool{}
		msgs := make([]string, len(ads))
		var wg sync.WaitGroup
		for i, a := range ads {
			wg.Add(1)
			go func(i int, a adapter) {
				defer wg.Done()
				defer a.Close()
				msgs[i] = runHistory(a, hist, func(l string) {
					mu.Lock()
					seen[l] = true
					mu.Unlock()
				})
			}(i, a)
		}
		wg.Wait()
		for l := range seen {
			c.Label(l)
		}
		for f := range feat {
			c.Label(f)
		}
		if feat["reset-after-expiry"] || seen["repeated-timeout-after-expiry"] {
			c.NonTrivial()
		}
		for _, m := range msgs {
			if strings.HasPrefix(m, "VERIF-INFRA") {
				t.Fatalf("%s", m)
			}
		}
		for _, m := range msgs {
			if m != "" {
				t.Fatalf("C10: %s", m)
			}
		}
	})
}
