package rdl

import (
	"testing"
	"time"
)

// C10-vnet-udpconn-deadline (fixed by 25182b8): scripted histories of the
// three symptoms on the vnet socket (run by the driver under both GODEBUG
// timer settings).
func TestRegressC10_VnetDeadline(t *testing.T) {
	ms := time.Millisecond
	hists := [][]step{
		// expiry while nobody reads, then a later deadline: the read must not time out early
		{{kind: stSet, dl: "near", d: 8 * ms}, {kind: stIdle, d: 20 * ms}, {kind: stSet, dl: "far"}, {kind: stInject}, {kind: stIdle, d: 5 * ms}, {kind: stRead}, {kind: stWait}},
		// two reads after one expiry: both time out, none blocks
		{{kind: stSet, dl: "near", d: 8 * ms}, {kind: stIdle, d: 20 * ms}, {kind: stRead}, {kind: stWait}, {kind: stRead}, {kind: stWait}},
		// passed deadline with data waiting: timeout, twice
		{{kind: stSet, dl: "past"}, {kind: stInject}, {kind: stIdle, d: 5 * ms}, {kind: stRead}, {kind: stWait}, {kind: stRead}, {kind: stWait}, {kind: stRead}, {kind: stWait}},
	}
	for round := 0; round < 3; round++ {
		for i, h := range hists {
			a, err := newVnet()
			if err != nil {
				t.Fatal(err)
			}
			msg := runHistory(a, h, func(string) {})
			a.Close()
			if msg != "" {
				t.Fatalf("C10: history %d %v: %s", i, h, msg)
			}
		}
	}
}

// Scripted: a value applied through SetReadDeadline, replaced through
// SetDeadline, and applied again must be in force (on every connection type
// that has both setters).
func TestRegressC10_ScriptReappliedValue(t *testing.T) {
	ms := time.Millisecond
	hists := [][]step{
		{{kind: stSet, dl: "near", d: 15 * ms}, {kind: stSet, dl: "zero", both: true}, {kind: stSet, dl: "again"}, {kind: stRead}, {kind: stWait}},
		{{kind: stSet, dl: "near", d: 15 * ms}, {kind: stSet, dl: "past", both: true}, {kind: stSet, dl: "again"}, {kind: stRead}, {kind: stWait}},
		{{kind: stSet, dl: "near", d: 15 * ms}, {kind: stSet, dl: "far", both: true}, {kind: stSet, dl: "again"}, {kind: stRead}, {kind: stWait}},
	}
	for i, h := range hists {
		for _, mk := range []func() adapter{newDpipe, newBridge} {
			a := mk()
			msg := runHistory(a, h, func(string) {})
			a.Close()
			if msg != "" {
				t.Fatalf("C10: history %d %v: %s", i, h, msg)
			}
		}
	}
}
