// Package pktsched holds the controlled-schedule checks of packetio.Buffer:
// C08 (reads block only while empty and are always woken) and the
// concurrent half of C06, both over the yield-instrumented buffer.go and
// deadline.go.
package pktsched

import (
	"encoding/binary"
	"errors"
	"fmt"
	"io"
	"net"
	"os"
	"strings"
	"sync"
	"testing"
	"time"

	"github.com/pion/transport/v3/deadline"
	"github.com/pion/transport/v3/packetio"
	"pgregory.net/rapid"

	"verifharness/ev"
	"verifharness/sched"
	"verifharness/vclock"
)

// virtual time unit of the deadline operations
const unit = time.Second

var vbase = time.Date(2033, 3, 3, 0, 0, 0, 0, time.UTC)

// dlOp is one SetReadDeadline call of the deadliner task on the virtual clock.
type dlOp struct {
	Kind string // "past", "zero", "future"
	D    int    // future: units from the virtual now at the call
	// AfterTimer: the call is made only once a timer has fallen due since the
	// previous call (its callback dispatched, not necessarily run) - the caller
	// that reacts to an expiry by changing the deadline
	AfterTimer bool
}

func install(s *sched.Session, clock *vclock.Clock) {
	packetio.VerifSetHooks(&packetio.VerifHooks{Yield: s.Yield, Spawn: s.Spawn, Adopt: s.Adopt, Retire: s.Retire})
	h := &deadline.VerifHooks{Yield: s.Yield, Spawn: s.Spawn, Adopt: s.Adopt, Retire: s.Retire}
	if clock != nil {
		// future deadlines run on a virtual clock: a timer that falls due becomes a
		// callback task, so "fired but not yet run" is a schedulable state
		h.Now = clock.Now
		h.AfterFunc = func(d time.Duration, f func()) deadline.VerifTimer { return clock.AfterFunc(d, f) }
	}
	deadline.VerifSetHooks(h)
}

func uninstall() {
	packetio.VerifSetHooks(nil)
	deadline.VerifSetHooks(nil)
}

type readResult struct {
	startSeq, endSeq int // positions in the serialised order of read starts/completions
	reader           int
	n      int
	err    error
	tag    uint32 // writer<<16 | seq
	ok     bool   // payload intact
	short  bool   // truncated read (io.ErrShortBuffer)
}

type scenario struct {
	ShortBuf []bool  // per reader: reads into a 6-byte slice (shorter than most packets)
	Readers  []int   // reads per reader
	Writers  [][]int // payload sizes per writer
	Close    bool
	Deadline int // 0 none, 1 past, 2 past then zero, 3 the operations of DL on the virtual clock
	DL       []dlOp
	Ticks    []int // virtual clock advances (units) of the clock task
}

func (sc scenario) String() string {
	return fmt.Sprintf("readers=%v short=%v writers=%v close=%v deadline=%d %v ticks=%v", sc.Readers, sc.ShortBuf, sc.Writers, sc.Close, sc.Deadline, sc.DL, sc.Ticks)
}

func genScenario(t *rapid.T) scenario {
	var sc scenario
	nr := rapid.IntRange(1, 3).Draw(t, "readers")
	for i := 0; i < nr; i++ {
		sc.Readers = append(sc.Readers, rapid.IntRange(1, 2).Draw(t, "reads"))
		sc.ShortBuf = append(sc.ShortBuf, rapid.IntRange(0, 3).Draw(t, "short") == 0)
	}
	nw := rapid.IntRange(1, 2).Draw(t, "writers")
	for i := 0; i < nw; i++ {
		k := rapid.IntRange(1, 3).Draw(t, "writes")
		var sizes []int
		for j := 0; j < k; j++ {
			sizes = append(sizes, rapid.IntRange(4, 40).Draw(t, "size"))
		}
		if i == 0 && rapid.IntRange(0, 7).Draw(t, "fill") == 0 {
			// packets that bring the fresh 2048-byte ring exactly to its capacity
			// (every packet costs its length plus two bytes)
			if rapid.Bool().Draw(t, "fillOne") {
				sizes[0] = 2046
			} else if k >= 2 {
				sizes[0], sizes[1] = 1000, 1044
			}
		}
		sc.Writers = append(sc.Writers, sizes)
	}
	sc.Close = rapid.IntRange(0, 2).Draw(t, "close") == 0
	switch rapid.IntRange(0, 7).Draw(t, "dl") {
	case 0, 1:
		sc.Deadline = rapid.IntRange(1, 2).Draw(t, "dlkind")
	case 2, 3:
		sc.Deadline = 3
		for i, n := 0, rapid.IntRange(1, 4).Draw(t, "dlops"); i < n; i++ {
			switch rapid.IntRange(0, 5).Draw(t, "dlop") {
			case 0:
				sc.DL = append(sc.DL, dlOp{Kind: "past"})
			case 1, 2:
				sc.DL = append(sc.DL, dlOp{Kind: "zero"})
			default:
				sc.DL = append(sc.DL, dlOp{Kind: "future", D: rapid.SampledFrom([]int{1, 2, 5}).Draw(t, "d")})
			}
			if i > 0 && rapid.IntRange(0, 2).Draw(t, "afterTimer") == 0 {
				sc.DL[i].AfterTimer = true
			}
		}
		sc.Ticks = rapid.SliceOfN(rapid.IntRange(0, 5), 1, 6).Draw(t, "ticks")
		if rapid.Bool().Draw(t, "focus") {
			// nothing but parked readers, the deadliner, the clock and the timer callbacks
			sc.Writers, sc.Close = nil, false
			sc.Readers = sc.Readers[:1]
			sc.Readers[0] = 1
			if rapid.Bool().Draw(t, "rearm") {
				// arm, let it fall due, clear or move into the past, arm again
				a := rapid.SampledFrom([]int{1, 2}).Draw(t, "a")
				mid := dlOp{Kind: rapid.SampledFrom([]string{"zero", "past"}).Draw(t, "mid"), AfterTimer: rapid.Bool().Draw(t, "midAfterTimer")}
				sc.DL = []dlOp{{Kind: "future", D: a}, mid, {Kind: "future", D: rapid.SampledFrom([]int{1, 2}).Draw(t, "b")}}
				sc.Ticks = append([]int{a}, sc.Ticks...)
			}
		}
	}
	return sc
}

func payload(w, seq, size int) []byte {
	p := make([]byte, size)
	binary.BigEndian.PutUint32(p, uint32(w)<<16|uint32(seq))
	for i := 4; i < size; i++ {
		p[i] = byte(w*31 + seq*7 + i)
	}
	return p
}

type outcome struct {
	mu        sync.Mutex
	sizes     map[uint32]int // planned size of every packet (known before it is written)
	clock     int
	reads     []readResult
	writesOK  map[uint32]int // tag -> size
	closed    bool
	dlPast    bool // deadline currently in the past
	dlEverSet bool
	dlLast    time.Time // virtual-clock scenarios: the value of the last completed SetReadDeadline
}

// labelling chooser: wraps a chooser and watches for the interesting windows.
type watcher struct {
	inner sched.Chooser
	c     *ev.Case
}

func (w *watcher) Pick(s *sched.Session, enabled []*sched.Task) *sched.Task {
	t := w.inner.Pick(s, enabled)
	if t == nil {
		return nil
	}
	atSelect := 0
	for _, e := range enabled {
		if strings.HasPrefix(e.Name, "reader") && inWindow(e) {
			atSelect++
		}
	}
	blocked := 0
	for _, b := range s.BlockedTasks() {
		if strings.HasPrefix(b.Name, "reader") {
			blocked++
		}
	}
	if strings.HasPrefix(t.Name, "writer") && t.Kind() == "lock" {
		if atSelect >= 2 {
			w.c.Label("two-readers-in-window-at-write")
			w.c.NonTrivial()
		}
		if atSelect >= 1 {
			w.c.Label("reader-in-window-at-write")
		}
		if blocked >= 1 {
			w.c.Label("write-with-parked-reader")
		}
	}
	if t.Name == "closer" && t.Kind() == "close" && (blocked >= 1 || atSelect >= 1) {
		w.c.Label("close-vs-waiting-reader")
		w.c.NonTrivial()
	}
	if t.Name == "deadliner" && (blocked >= 1 || atSelect >= 1) {
		w.c.Label("deadline-vs-waiting-reader")
	}
	if t.Name == "deadliner" {
		for _, e := range enabled {
			if strings.HasPrefix(e.Name, "cb") {
				// a timer has fired, its callback has not finished, and the deadline is being changed
				w.c.Label("set-while-callback-dispatched")
				w.c.NonTrivial()
			}
		}
	}
	return t
}

// readWithin runs one Read on a goroutine of its own and reports whether it
// returned in time (a Read that the oracle says cannot block must not hang the
// harness; the deferred Close releases it).
func readWithin(b *packetio.Buffer, buf []byte, d time.Duration) (error, bool) {
	ch := make(chan error, 1)
	go func() {
		_, err := b.Read(buf)
		ch <- err
	}()
	select {
	case err := <-ch:
		return err, true
	case <-time.After(d):
		return nil, false
	}
}

// inWindow: the reader found the buffer empty, released the lock and has not
// parked yet (it is at the blocking select's yield, or inside the
// readDeadline.Done() call that the select evaluates first).
func inWindow(e *sched.Task) bool {
	if e.Kind() == "select" {
		return true
	}
	p := e.Passed()
	if strings.HasPrefix(e.Label(), "deadline.go") && len(p) > 0 && strings.HasSuffix(p[len(p)-1], ":select") {
		return true
	}
	return false
}

// runScenario executes sc under the chooser and checks the quiescence oracle.
// fail is called with a message on violation.
func runScenario(sc scenario, ch sched.Chooser, c *ev.Case, logf func(string, ...any), fail func(string, ...any)) {
	s := sched.New()
	var clock *vclock.Clock
	if sc.Deadline == 3 {
		clock = vclock.New(vbase)
	}
	install(s, clock)
	b := packetio.NewBuffer()
	out := &outcome{writesOK: map[uint32]int{}, sizes: map[uint32]int{}}
	for w, sizes := range sc.Writers {
		for seq, sz := range sizes {
			out.sizes[uint32(w)<<16|uint32(seq)] = sz
		}
	}
	released := false
	release := func() {
		if !released {
			released = true
			_ = b.Close()
		}
	}
	defer func() {
		s.Abort()
		// release from a helper goroutine: if a task died holding the
		// buffer's mutex, Close would block the controller for ever
		done := make(chan struct{})
		go func() { release(); close(done) }()
		select {
		case <-done:
		case <-time.After(time.Second):
		}
		if left := s.Drain(time.Second); left > 0 && c != nil {
			c.Count("leaked_goroutines", int64(left))
		}
		uninstall()
	}()

	for r, reads := range sc.Readers {
		r, reads := r, reads
		s.Go(fmt.Sprintf("reader%d", r), func() {
			buf := make([]byte, 2048)
			if r < len(sc.ShortBuf) && sc.ShortBuf[r] {
				buf = make([]byte, 6) // a short read consumes the whole packet and returns its leading bytes
			}
			for i := 0; i < reads; i++ {
				out.mu.Lock()
				out.clock++
				start := out.clock
				out.mu.Unlock()
				n, err := b.Read(buf)
				out.mu.Lock()
				out.clock++
				end := out.clock
				out.mu.Unlock()
				res := readResult{reader: r, n: n, err: err, startSeq: start, endSeq: end}
				if errors.Is(err, io.ErrShortBuffer) && n == len(buf) {
					err = nil // a truncated read is a successful, consuming read of the packet's prefix
					res.err = nil
					res.short = true
				}
				if err == nil && n >= 4 {
					res.tag = binary.BigEndian.Uint32(buf)
					w, seq := int(res.tag>>16), int(res.tag&0xffff)
					full := 0
					out.mu.Lock()
					full = out.sizes[res.tag]
					out.mu.Unlock()
					want := payload(w, seq, max(full, n))
					res.ok = string(want[:n]) == string(buf[:n])
				}
				out.mu.Lock()
				out.reads = append(out.reads, res)
				out.mu.Unlock()
			}
		})
	}
	for w, sizes := range sc.Writers {
		w, sizes := w, sizes
		s.Go(fmt.Sprintf("writer%d", w), func() {
			for seq, sz := range sizes {
				p := payload(w, seq, sz)
				n, err := b.Write(p)
				for i := range p {
					p[i] = 0xFF
				}
				out.mu.Lock()
				if err == nil && n == sz {
					out.writesOK[uint32(w)<<16|uint32(seq)] = sz
				}
				out.mu.Unlock()
			}
		})
	}
	if sc.Close {
		s.Go("closer", func() {
			_ = b.Close()
			out.mu.Lock()
			out.closed = true
			out.mu.Unlock()
		})
	}
	if sc.Deadline == 3 {
		var cbSpawned int
		var clockDone bool
		s.Go("deadliner", func() {
			seen := 0
			for _, op := range sc.DL {
				for op.AfterTimer {
					out.mu.Lock()
					ok := cbSpawned > seen || clockDone
					out.mu.Unlock()
					if ok {
						break
					}
					s.Yield("deadliner:await-timer")
				}
				out.mu.Lock()
				seen = cbSpawned
				out.mu.Unlock()
				var to time.Time
				switch op.Kind {
				case "past":
					to = clock.Now().Add(-unit)
				case "future":
					to = clock.Now().Add(time.Duration(op.D) * unit)
				}
				_ = b.SetReadDeadline(to)
				out.mu.Lock()
				out.dlLast, out.dlEverSet = to, true
				out.mu.Unlock()
			}
		})
		nCb := 0
		s.Go("clockd", func() {
			for _, dt := range sc.Ticks {
				clock.Advance(time.Duration(dt) * unit)
				for clock.Pending() > 0 {
					cb := clock.Take(0)
					nCb++
					s.Go(fmt.Sprintf("cb%d", nCb), cb.Run)
					out.mu.Lock()
					cbSpawned++
					out.mu.Unlock()
				}
				s.Yield("clockd:tick")
			}
			out.mu.Lock()
			clockDone = true
			out.mu.Unlock()
		})
	} else if sc.Deadline > 0 {
		s.Go("deadliner", func() {
			_ = b.SetReadDeadline(time.Unix(1, 0))
			out.mu.Lock()
			out.dlPast, out.dlEverSet = true, true
			out.mu.Unlock()
			if sc.Deadline == 2 {
				_ = b.SetReadDeadline(time.Time{})
				out.mu.Lock()
				out.dlPast = false
				out.mu.Unlock()
			}
		})
	}

	s.Run(ch)
	if s.Discarded {
		if c != nil {
			c.Label("discarded/step-limit")
		}
		return
	}
	logf("terminal state:\n%s", s.Describe())
	for _, t := range s.Tasks() {
		if p := t.Panicked(); p != nil {
			fail("C08: task %s panicked: %v\n%s", t.Name, p, s.Describe())
			return
		}
	}
	// --- quiescence oracle (no task is at a yield; blocked tasks hold no lock)
	blocked := s.BlockedTasks()
	count := b.Count()
	out.mu.Lock()
	closed, dlPast := out.closed, out.dlPast
	if clock != nil {
		// every timer that is due at the virtual now has been run as a task
		dlPast = !out.dlLast.IsZero() && !out.dlLast.After(clock.Now())
		if c != nil && dlPast {
			c.Label("virtual-deadline/passed-at-quiescence")
		}
	}
	reads := append([]readResult(nil), out.reads...)
	nWrites := len(out.writesOK)
	out.mu.Unlock()
	for _, t := range blocked {
		if !strings.HasPrefix(t.Name, "reader") {
			st, fr := t.WaitInfo()
			fail("C08: task %s is blocked in [%s] at %s although only Read may wait\n%s", t.Name, st, fr, s.Describe())
			return
		}
		if count > 0 {
			fail("C08: %s stays blocked in Read while %d packet(s) are buffered (lost wake-up)\n%s", t.Name, count, s.Describe())
			return
		}
		if closed {
			fail("C08: %s stays blocked in Read after Close returned\n%s", t.Name, s.Describe())
			return
		}
		if dlPast {
			fail("C08: %s stays blocked in Read although the read deadline is in the past\n%s", t.Name, s.Describe())
			return
		}
	}
	// conservation and integrity
	seen := map[uint32]bool{}
	okReads := 0
	lastSeq := map[[2]int]int{}
	for _, r := range reads {
		switch {
		case r.err == nil:
			okReads++
			out.mu.Lock()
			sz, written := out.writesOK[r.tag]
			out.mu.Unlock()
			if c != nil && r.short {
				c.Label("short-read")
			}
			if !written || (sz != r.n && !(r.short && r.n < sz)) || !r.ok {
				fail("C08/C06: reader %d got a %d-byte packet (tag %#x) that matches no written packet\n%s", r.reader, r.n, r.tag, s.Describe())
				return
			}
			if seen[r.tag] {
				fail("C08/C06: packet %#x was read twice\n%s", r.tag, s.Describe())
				return
			}
			seen[r.tag] = true
			k := [2]int{r.reader, int(r.tag >> 16)}
			if l, ok := lastSeq[k]; ok && int(r.tag&0xffff) < l {
				fail("C06: reader %d saw writer %d's packet %d after packet %d\n%s", r.reader, r.tag>>16, r.tag&0xffff, l, s.Describe())
				return
			}
			lastSeq[k] = int(r.tag & 0xffff)
		case errors.Is(r.err, io.EOF):
			if !closed && !released {
				// Close may still be in progress (closer not finished) only if it is blocked, which was excluded above
				if !sc.Close {
					fail("C08: Read returned io.EOF but the buffer was never closed\n%s", s.Describe())
					return
				}
			}
		default:
			var ne net.Error
			if errors.As(r.err, &ne) && ne.Timeout() {
				nonZero := sc.Deadline == 1 || sc.Deadline == 2
				for _, op := range sc.DL {
					nonZero = nonZero || op.Kind != "zero"
				}
				if !nonZero {
					fail("C08: Read timed out but no read deadline was ever set\n%s", s.Describe())
					return
				}
			} else {
				fail("C08: Read returned unexpected error %v\n%s", r.err, s.Describe())
				return
			}
		}
	}
	// end-of-file is final: once a Read has reported EOF the buffer is closed and
	// empty for good
	for _, e := range reads {
		if !errors.Is(e.err, io.EOF) {
			continue
		}
		if count > 0 {
			fail("C08: reader %d was told end-of-file although %d packet(s) are still buffered after Close\n%s", e.reader, count, s.Describe())
			return
		}
		for _, d := range reads {
			if d.err == nil && d.startSeq > e.endSeq {
				fail("C08: reader %d read a packet with a Read that started after reader %d had been told end-of-file\n%s", d.reader, e.reader, s.Describe())
				return
			}
		}
	}
	if okReads+count != nWrites {
		fail("C08: %d successful writes, but %d packets read + %d still buffered\n%s", nWrites, okReads, count, s.Describe())
		return
	}
	if c != nil {
		c.Count("schedules", 1)
		c.Count("steps", int64(s.Steps()))
		if len(blocked) > 0 {
			c.Label("terminal/reader-legitimately-blocked")
		}
	}
	// after quiescence: remaining packets are readable, then EOF (if closed)
	s.Abort()
	if closed {
		if dlPast {
			_ = b.SetReadDeadline(time.Time{})
		}
		buf := make([]byte, 2048)
		for i := 0; i < count; i++ {
			if _, err := b.Read(buf); err != nil {
				fail("C08: after Close, buffered packet %d of %d could not be read: %v", i+1, count, err)
				return
			}
		}
		if _, err := b.Read(buf); !errors.Is(err, io.EOF) {
			fail("C08: after Close and drain, Read returned %v, want io.EOF", err)
			return
		}
		if _, err := b.Read(buf); !errors.Is(err, io.EOF) {
			fail("C08: second Read after drain returned %v, want io.EOF", err)
			return
		}
	} else if clock != nil && !dlPast && !out.dlLast.IsZero() {
		// the deadline in force is still ahead: let it pass; every parked reader must
		// then be released and further reads must time out
		clock.Advance(100 * unit)
		for clock.Pending() > 0 {
			clock.Take(0).Run()
		}
		if left := s.Drain(2 * time.Second); left > 0 {
			fail("C08: %d task(s) are still blocked 2 s after the read deadline %v has passed (virtual clock %v)\n%s", left, out.dlLast.Sub(vbase), clock.Offset(), s.Describe())
			return
		}
		buf := make([]byte, 64)
		for i := 0; i < count+2; i++ {
			err, returned := readWithin(b, buf, 2*time.Second)
			if !returned {
				fail("C08: a Read started after the read deadline %v had passed (virtual clock %v, every timer callback has run) is still blocked after 2 s\n%s", out.dlLast.Sub(vbase), clock.Offset(), s.Describe())
				return
			}
			var ne net.Error
			if !errors.As(err, &ne) || !ne.Timeout() {
				fail("C08: Read %d after the read deadline passed returned %v, want a timeout error", i+1, err)
				return
			}
		}
		if c != nil {
			c.Label("virtual-deadline/passed-after-settle")
		}
	} else if dlPast {
		// a passed deadline keeps failing reads until it is changed
		buf := make([]byte, 64)
		for i := 0; i < 2; i++ {
			err, returned := readWithin(b, buf, 2*time.Second)
			if !returned {
				fail("C08: a Read started while the read deadline is in the past is still blocked after 2 s\n%s", s.Describe())
				return
			}
			var ne net.Error
			if !errors.As(err, &ne) || !ne.Timeout() {
				fail("C08: Read %d with a passed deadline returned %v, want a timeout error", i+1, err)
				return
			}
		}
	}
}

const ruleC08 = "rapid-drawn scenario (1..3 readers x 1..2 reads, 1..2 writers x 1..3 writes of 4..40 bytes (in an eighth of the cases the first writer's packets bring the fresh 2048-byte ring exactly to its capacity), optional Close task, optional SetReadDeadline(past[,zero]) task, or a deadliner task with 1..4 SetReadDeadline(past | zero | now+1,2,5 units) on a virtual clock plus a clock task whose advances turn every due timer into a callback task, so 'the timer has fired, its callback has not run yet, and the deadline is changed' is schedulable) and a rapid-drawn schedule (strategies uniform / run-length / hold-at-block / priority-with-change-points) over every lock, unlock, channel and select operation of the yield-instrumented packetio/buffer.go and deadline/deadline.go; oracle at true quiescence: no reader parked in Read while Count()>0, none after Close returned, none under a passed deadline (virtual clock: the last value set has passed and every due callback has run; a deadline still ahead is then made to pass: all readers must return and further reads time out), reads+buffered==writes with intact, unduplicated, per-writer-ordered packets, no panic, then drain to EOF; non-trivial = >=2 readers were between their emptiness check and the blocking select when a writer took the lock, or Close ran against a waiting reader; distinct by hash of scenario + step trace"

func TestC08Schedules(t *testing.T) {
	r := ev.New("C08", "schedules", ruleC08)
	r.Essential = []string{"two-readers-in-window-at-write", "close-vs-waiting-reader", "deadline-vs-waiting-reader", "strategy/hold-at-block", "set-while-callback-dispatched", "virtual-deadline/passed-at-quiescence"}
	r.MinForEssential = 300
	r.Assume("yield granularity = the synchronisation operations of packetio/buffer.go and deadline/deadline.go; goroutine wait states as reported by runtime.Stack")
	r.Check(t, func(t *rapid.T, c *ev.Case) {
		sc := genScenario(t)
		rc := sched.NewRapidChooser(t)
		c.Set("scenario", sc.String())
		c.Label("strategy/" + sched.StrategyNames[rc.Strategy])
		t.Logf("scenario: %s strategy=%s", sc, sched.StrategyNames[rc.Strategy])
		var msg string
		w := &watcher{inner: rc, c: c}
		var trace []string
		func() {
			runScenario(sc, chooserFunc(func(s *sched.Session, en []*sched.Task) *sched.Task {
				p := w.Pick(s, en)
				if p != nil {
					trace = append(trace, p.Name+"@"+p.Label())
				}
				return p
			}), c, t.Logf, func(f string, a ...any) {
				if msg == "" {
					msg = fmt.Sprintf(f, a...)
				}
			})
		}()
		for _, s := range trace {
			c.Op("%s", s)
		}
		if msg != "" {
			t.Fatalf("%s", msg)
		}
	})
}

type chooserFunc func(s *sched.Session, en []*sched.Task) *sched.Task

func (f chooserFunc) Pick(s *sched.Session, en []*sched.Task) *sched.Task { return f(s, en) }

func TestMain(m *testing.M) {
	os.Exit(m.Run())
}

const ruleC06Sched = "controlled-schedule variant of C06: 1..3 writers x 1..4 tagged packets (sizes 8..40 and 600..1100, so the 2048-byte ring grows and wraps while readers are active) against 1..2 readers, Close task included in half of the cases; schedule drawn as in C08 over every lock/channel/select operation of buffer.go; oracle at quiescence: every packet read is byte-identical to a written one, none twice, per-writer order per reader, reads + buffered == successful writes; non-trivial = >=2 writers or >=2 readers and a ring growth happened; distinct by hash of scenario + step trace"

func TestC06Schedules(t *testing.T) {
	r := ev.New("C06", "schedules", ruleC06Sched)
	r.Assume("yield granularity = the synchronisation operations of packetio/buffer.go and deadline/deadline.go")
	r.Check(t, func(t *rapid.T, c *ev.Case) {
		var sc scenario
		nw := rapid.IntRange(1, 3).Draw(t, "writers")
		total, bytes := 0, 0
		for i := 0; i < nw; i++ {
			k := rapid.IntRange(1, 4).Draw(t, "writes")
			var sizes []int
			for j := 0; j < k; j++ {
				sz := rapid.IntRange(8, 40).Draw(t, "size")
				if rapid.Bool().Draw(t, "large") {
					sz = rapid.IntRange(600, 1100).Draw(t, "lsize")
				}
				sizes = append(sizes, sz)
				bytes += sz + 2
			}
			total += k
			sc.Writers = append(sc.Writers, sizes)
		}
		nr := rapid.IntRange(1, 2).Draw(t, "readers")
		for i := 0; i < nr; i++ {
			sc.Readers = append(sc.Readers, rapid.IntRange(1, total).Draw(t, "reads"))
		}
		sc.Close = rapid.Bool().Draw(t, "close")
		rc := sched.NewRapidChooser(t)
		c.Set("scenario", sc.String())
		c.Label("strategy/" + sched.StrategyNames[rc.Strategy])
		if (nw >= 2 || nr >= 2) && bytes > 2047 {
			c.NonTrivial()
			c.Label("growth-under-concurrency")
		}
		t.Logf("scenario: %s strategy=%s", sc, sched.StrategyNames[rc.Strategy])
		var msg string
		var trace []string
		runScenario(sc, chooserFunc(func(s *sched.Session, en []*sched.Task) *sched.Task {
			p := rc.Pick(s, en)
			if p != nil {
				trace = append(trace, p.Name+"@"+p.Label())
			}
			return p
		}), c, t.Logf, func(f string, a ...any) {
			if msg == "" {
				msg = fmt.Sprintf(f, a...)
			}
		})
		for _, s := range trace {
			c.Op("%s", s)
		}
		if msg != "" {
			t.Fatalf("%s", msg)
		}
	})
}
