package pktsched

import (
	"fmt"
	"strings"
	"testing"

	"verifharness/sched"
)

// windowChooser is the shrunk schedule of the lost wake-up (C08, fixed by
// 1e2947d): first every reader is advanced until it has found the buffer
// empty and released the lock (but has not parked), then the writers run to
// completion, then the readers continue.
type windowChooser struct{}

func (windowChooser) Pick(s *sched.Session, enabled []*sched.Task) *sched.Task {
	for _, t := range enabled {
		if strings.HasPrefix(t.Name, "reader") && !inWindow(t) {
			return t
		}
	}
	for _, t := range enabled {
		if strings.HasPrefix(t.Name, "writer") {
			return t
		}
	}
	for _, t := range enabled {
		if t.Name == "closer" {
			return t
		}
	}
	return enabled[0]
}

func TestRegressC08_LostWakeup(t *testing.T) {
	for _, sc := range []scenario{
		{Readers: []int{1, 1}, Writers: [][]int{{8, 8}}},
		{Readers: []int{1, 1, 1}, Writers: [][]int{{8, 8, 8}}},
		{Readers: []int{1, 1}, Writers: [][]int{{8}, {9}}},
	} {
		var msg string
		runScenario(sc, windowChooser{}, nil, func(string, ...any) {}, func(f string, a ...any) {
			if msg == "" {
				msg = fmt.Sprintf(f, a...)
			}
		})
		if msg != "" {
			t.Fatalf("%s: %s", sc, msg)
		}
	}
}


// Seeded change C08-eof-on-closed-notify: two readers in the window, two
// writes and Close before either reader parks; the second reader must not be
// told end-of-file while a packet remains.
func TestRegressC08_CloseWithTwoReadersInWindow(t *testing.T) {
	for _, sc := range []scenario{
		{Readers: []int{1, 1}, Writers: [][]int{{8, 8}}, Close: true},
		{Readers: []int{2, 1}, Writers: [][]int{{8, 9, 10}}, Close: true},
	} {
		var msg string
		runScenario(sc, windowChooser{}, nil, func(string, ...any) {}, func(f string, a ...any) {
			if msg == "" {
				msg = fmt.Sprintf(f, a...)
			}
		})
		if msg != "" {
			t.Fatalf("%s: %s", sc, msg)
		}
	}
}
