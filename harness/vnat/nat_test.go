package vnat

import (
	"bytes"
	"fmt"
	"net"
	"testing"
	"time"

	"github.com/pion/transport/v3/vnet"
	"pgregory.net/rapid"

	"verifharness/ev"
	"verifharness/vclock"
)

var (
	routerIPs = []net.IP{net.IPv4(27, 1, 1, 1), net.IPv4(27, 1, 1, 2)}
	otherIP   = net.IPv4(27, 1, 1, 9)
	internals = []*net.UDPAddr{
		{IP: net.IPv4(192, 168, 0, 2), Port: 1234}, {IP: net.IPv4(192, 168, 0, 2), Port: 1235},
		{IP: net.IPv4(192, 168, 0, 3), Port: 1234}, {IP: net.IPv4(192, 168, 0, 3), Port: 1235},
	}
	remotes = []*net.UDPAddr{
		{IP: net.IPv4(5, 6, 7, 8), Port: 7000}, {IP: net.IPv4(5, 6, 7, 8), Port: 7001},
		{IP: net.IPv4(5, 6, 7, 9), Port: 7000}, {IP: net.IPv4(5, 6, 7, 9), Port: 7001},
		{IP: net.IPv4(9, 9, 9, 9), Port: 7000},
	}
)

// look-alike pools: addresses whose textual forms are prefixes of one another
// (5.6.7.8 / 5.6.7.80, port 70 / 700 / 7000), which only an exact key keeps apart
var (
	internalsAlike = []*net.UDPAddr{
		{IP: net.IPv4(192, 168, 0, 2), Port: 123}, {IP: net.IPv4(192, 168, 0, 2), Port: 1234},
		{IP: net.IPv4(192, 168, 0, 20), Port: 123}, {IP: net.IPv4(192, 168, 0, 20), Port: 1234},
	}
	remotesAlike = []*net.UDPAddr{
		{IP: net.IPv4(5, 6, 7, 8), Port: 70}, {IP: net.IPv4(5, 6, 7, 8), Port: 700},
		{IP: net.IPv4(5, 6, 7, 80), Port: 70}, {IP: net.IPv4(5, 6, 7, 8), Port: 7000},
		{IP: net.IPv4(5, 6, 7, 89), Port: 700},
	}
)

// concatenation look-alikes: "192.168.0.2:5000"+"11.2.3.4" reads the same as
// "192.168.0.2:50001"+"1.2.3.4" when a key is built without a separator
var (
	internalsConcat = []*net.UDPAddr{
		{IP: net.IPv4(192, 168, 0, 2), Port: 5000}, {IP: net.IPv4(192, 168, 0, 2), Port: 50001},
		{IP: net.IPv4(192, 168, 0, 2), Port: 500}, {IP: net.IPv4(192, 168, 0, 21), Port: 5000},
	}
	remotesConcat = []*net.UDPAddr{
		{IP: net.IPv4(11, 2, 3, 4), Port: 80}, {IP: net.IPv4(1, 2, 3, 4), Port: 80},
		{IP: net.IPv4(11, 2, 3, 4), Port: 8}, {IP: net.IPv4(1, 2, 3, 4), Port: 8},
		{IP: net.IPv4(111, 2, 3, 4), Port: 80},
	}
)

// form returns the address with its IP in the 4-byte or the 16-byte
// representation; both denote the same IPv4 address and both reach the
// translator through the public API.
func form(a *net.UDPAddr, four bool) *net.UDPAddr {
	ip := a.IP.To16()
	if four {
		ip = a.IP.To4()
	}
	return &net.UDPAddr{IP: append(net.IP(nil), ip...), Port: a.Port}
}

func udp(s string) *net.UDPAddr {
	a, err := net.ResolveUDPAddr("udp", s)
	if err != nil {
		panic(err)
	}
	return a
}

var depNames = [...]string{"EI", "AD", "APD"}

func natType(m, f Dep, life time.Duration) vnet.NATType {
	return vnet.NATType{
		MappingBehavior:   vnet.EndpointDependencyType(m),
		FilteringBehavior: vnet.EndpointDependencyType(f),
		MappingLifeTime:   life,
	}
}

type world struct {
	t      *rapid.T
	c      *ev.Case
	clock  *vclock.Clock
	nat    *vnet.VerifNAT
	m      *Model
	nIPs   int
	exts   []string // every external address ever learned
	seq    int
	focus  string // "C02" or "C03": which statements are asserted
	silent bool   // no per-event log/op (port-space scenario: tens of thousands of events)
}

func (w *world) payload() []byte {
	w.seq++
	return []byte(fmt.Sprintf("payload-%06d", w.seq))
}

// outbound sends one datagram internal -> remote through the translator.
func (w *world) outbound(in, rem *net.UDPAddr) {
	t, m := w.t, w.m
	now := w.clock.Offset()
	pl := w.payload()
	orig := append([]byte(nil), pl...)
	ch := vnet.VerifNewChunkUDP(in, rem, pl)
	var to vnet.Chunk
	var err error
	ev.NoPanic(t, "translateOutbound", func() { to, err = w.nat.Outbound(ch) })
	mp, liveness := m.Lookup(in, rem, now)
	if !w.silent {
		w.c.Op("out %s>%s", in, rem)
	}
	if err != nil || to == nil {
		t.Logf("t=%v outbound %s -> %s : error %v", now, in, rem, err)
		w.c.Label("outbound/error")
		if mp != nil && liveness == 1 {
			t.Fatalf("C02: outbound %s -> %s failed (%v) although its mapping %s is live (last outbound %v ago, lifetime %v)",
				in, rem, err, mp.ext, now-mp.lastOut, m.Life)
		}
		return
	}
	ext := to.SourceAddr().String()
	extAddr := udp(ext)
	if !w.silent {
		t.Logf("t=%v outbound %s -> %s : external %s", now, in, rem, ext)
	}
	// translated datagram: destination and payload untouched
	if to.DestinationAddr().String() != rem.String() {
		t.Fatalf("C02: outbound translation changed the destination %s to %s", rem, to.DestinationAddr())
	}
	for i := range pl {
		pl[i] = 'x' // the input buffer may be reused by the caller
	}
	if !bytes.Equal(to.UserData(), orig) {
		t.Fatalf("C02/C01: outbound translation changed the payload or aliases the caller's buffer: %q", to.UserData())
	}
	// validity of the external address
	okIP := false
	for _, ip := range routerIPs[:w.nIPs] {
		if ip.Equal(extAddr.IP) {
			okIP = true
		}
	}
	if !okIP {
		t.Fatalf("C02: external address %s is not an IP of the router %v", ext, routerIPs[:w.nIPs])
	}
	if extAddr.Port < 1 || extAddr.Port > 65535 {
		t.Fatalf("C02: external address %s has an invalid UDP port", ext)
	}
	switch {
	case mp != nil && liveness == 1:
		if ext != mp.ext {
			t.Fatalf("C02: %s -> %s got external %s, but its mapping (same internal endpoint, same %s part of the destination) is live with %s (idle %v < lifetime %v)",
				in, rem, ext, depNames[m.Mapping], mp.ext, now-mp.lastOut, m.Life)
		}
		w.c.Label("mapping/reused-live")
		if now-mp.lastOut > m.Life/2 {
			w.c.Label("mapping/refreshed-late")
		}
		m.Refresh(mp, rem, now)
	case mp != nil && liveness == -1 && ext == mp.ext:
		w.c.Label("mapping/boundary-kept")
		m.Refresh(mp, rem, now)
	default:
		// a new mapping: must not collide with any other live mapping
		if m.Holder(ext, now, mp) == 1 {
			t.Fatalf("C02: new mapping for %s -> %s got external %s which a different live mapping already holds", in, rem, ext)
		}
		if mp != nil {
			w.c.Label("mapping/recreated-after-expiry")
		}
		m.Create(in, rem, ext, now)
		if !w.silent {
			w.exts = append(w.exts, ext)
		}
		w.c.Label("mapping/new")
	}
}

// inbound sends one datagram remote -> ext through the translator.
func (w *world) inbound(rem *net.UDPAddr, ext string, why string) {
	t, m := w.t, w.m
	now := w.clock.Offset()
	pl := w.payload()
	orig := append([]byte(nil), pl...)
	ch := vnet.VerifNewChunkUDP(rem, udp(ext), pl)
	var to vnet.Chunk
	var err error
	ev.NoPanic(t, "translateInbound", func() { to, err = w.nat.Inbound(ch) })
	verdict, internal, reason := m.Inbound(rem, ext, now)
	forwarded := err == nil && to != nil
	if !w.silent {
		w.c.Op("in %s>%s(%s)", rem, ext, why)
	}
	t.Logf("t=%v inbound %s -> %s (%s): forwarded=%v err=%v ; model: %d %s %s", now, rem, ext, why, forwarded, err, verdict, internal, reason)
	w.c.Label("inbound/" + why)
	switch verdict {
	case 1:
		if !forwarded {
			t.Fatalf("C03: inbound %s -> %s was dropped (%v) although a live mapping owns the address and the remote is permitted", rem, ext, err)
		}
		w.c.Label("inbound/forwarded")
	case 0:
		if forwarded {
			t.Fatalf("C03: inbound %s -> %s was forwarded to %s although %s", rem, ext, to.DestinationAddr(), reason)
		}
		w.c.Label("inbound/refused")
		w.c.Labelf("refused/%s", why)
	default:
		w.c.Label("inbound/either")
	}
	if forwarded {
		if verdict != 0 && to.DestinationAddr().String() != internal {
			t.Fatalf("C03: inbound %s -> %s was forwarded to %s, the mapping was created by %s", rem, ext, to.DestinationAddr(), internal)
		}
		if to.SourceAddr().String() != rem.String() {
			t.Fatalf("C03: inbound translation changed the source %s to %s", rem, to.SourceAddr())
		}
		for i := range pl {
			pl[i] = 'y'
		}
		if !bytes.Equal(to.UserData(), orig) {
			t.Fatalf("C03: inbound translation changed the payload or aliases the caller's buffer")
		}
	}
}

func (w *world) genExt(t *rapid.T) (string, string) {
	k := rapid.IntRange(0, 9).Draw(t, "extkind")
	switch {
	case k < 7 && len(w.exts) > 0:
		return w.exts[rapid.IntRange(0, len(w.exts)-1).Draw(t, "ext")], "learned"
	case k < 8:
		return fmt.Sprintf("%s:%d", routerIPs[0], 0xC000+rapid.IntRange(100, 200).Draw(t, "p")), "never-allocated"
	case k < 9:
		return fmt.Sprintf("%s:%d", otherIP, 0xC000+rapid.IntRange(0, 3).Draw(t, "p")), "other-ip"
	default:
		return fmt.Sprintf("%s:%d", routerIPs[w.nIPs-1], 0xC000+rapid.IntRange(0, 6).Draw(t, "p")), "guessed-port"
	}
}

func runNAPT(t *rapid.T, c *ev.Case, focus string) {
	mb := Dep(rapid.IntRange(0, 2).Draw(t, "mapping"))
	fb := Dep(rapid.IntRange(0, 2).Draw(t, "filtering"))
	life := time.Duration(rapid.SampledFrom([]int{3, 30, 3000}).Draw(t, "life")) * time.Second
	nIPs := rapid.IntRange(1, 2).Draw(t, "nips")
	clock := vclock.New(time.Date(2031, 5, 5, 0, 0, 0, 0, time.UTC))
	vnet.VerifSetHooks(&vnet.VerifHooks{Now: clock.Now})
	defer vnet.VerifSetHooks(nil)
	nat, err := vnet.VerifNewNAT(natType(mb, fb, life), routerIPs[:nIPs], nil)
	if err != nil {
		t.Fatalf("newNAT: %v", err)
	}
	w := &world{t: t, c: c, clock: clock, nat: nat, m: NewModel(mb, fb, life), nIPs: nIPs, focus: focus}
	c.Set("nat", fmt.Sprintf("mapping=%s filtering=%s life=%v ips=%d", depNames[mb], depNames[fb], life, nIPs))
	c.Labelf("nat/%s-%s", depNames[mb], depNames[fb])
	t.Logf("NAT mapping=%s filtering=%s lifetime=%v router IPs=%v", depNames[mb], depNames[fb], life, routerIPs[:nIPs])
	nInt := rapid.IntRange(1, 4).Draw(t, "nint")
	nRem := rapid.IntRange(1, 5).Draw(t, "nrem")
	internals, remotes := internals, remotes
	switch rapid.IntRange(0, 4).Draw(t, "pools") {
	case 0:
		internals, remotes = internalsAlike, remotesAlike
		c.Label("pools/look-alike")
	case 1:
		internals, remotes = internalsConcat, remotesConcat
		c.Label("pools/look-alike")
		c.Label("pools/concat")
	}
	mixedForms := rapid.Bool().Draw(t, "mixedForms")
	if mixedForms {
		c.Label("ipform/mixed")
	}
	pick := func(pool []*net.UDPAddr, n int, what string) *net.UDPAddr {
		a := pool[rapid.IntRange(0, n-1).Draw(t, what)]
		if mixedForms {
			return form(a, rapid.Bool().Draw(t, "four"))
		}
		return a
	}
	steps := rapid.IntRange(1, 120).Draw(t, "steps")
	refusedSeen := false
	afterRefused := 0
	expiryDecisions := 0
	for i := 0; i < steps; i++ {
		op := rapid.IntRange(0, 99).Draw(t, "op")
		inW, outW := 35, 75
		if focus == "C03" {
			inW, outW = 55, 80
		}
		switch {
		case op < inW && len(w.exts) > 0 || op < 8:
			rem := pick(remotes, nRem, "rem")
			ext, why := w.genExt(t)
			before := c.Has("inbound/refused")
			w.inbound(rem, ext, why)
			if !before && c.Has("inbound/refused") {
				refusedSeen = true
			}
		case op < outW:
			in := pick(internals, nInt, "int")
			rem := pick(remotes, nRem, "rem")
			w.outbound(in, rem)
		default:
			fr := rapid.SampledFrom([]string{"0", "1/3", "2/3", "1-e", "1", "1+e", "3"}).Draw(t, "adv")
			var d time.Duration
			switch fr {
			case "1/3":
				d = life / 3
			case "2/3":
				d = 2 * life / 3
			case "1-e":
				d = life - time.Millisecond
			case "1":
				d = life
			case "1+e":
				d = life + time.Millisecond
			case "3":
				d = 3 * life
			}
			clock.Advance(d)
			c.Op("advance %s", fr)
			t.Logf("advance %s lifetime -> t=%v", fr, clock.Offset())
			if fr != "0" {
				expiryDecisions++
			}
		}
		if refusedSeen {
			afterRefused++
		}
	}
	live := 0
	for range w.m.LiveExts(clock.Offset(), nil) {
		live++
	}
	if focus == "C02" {
		if len(w.exts) >= 2 && expiryDecisions >= 1 && (c.Has("mapping/reused-live") || c.Has("mapping/recreated-after-expiry")) {
			c.NonTrivial()
		}
	} else {
		if c.Has("inbound/refused") && afterRefused >= 10 && c.Has("inbound/forwarded") {
			c.NonTrivial()
		}
	}
}

const ruleC02 = "in-package history (1..120 events) over the NAPT translator of vnet on a virtual clock: outbound(internal i of 1..4 endpoints on 2 IPs x 2 ports, remote r of 1..5 on 3 IPs; in two fifths of the cases pools of look-alike addresses such as 5.6.7.8/5.6.7.80, ports 70/700/7000, or pairs like 192.168.0.2:5000 -> 11.2.3.4 and 192.168.0.2:50001 -> 1.2.3.4 whose concatenations read alike; in half of the cases every address is handed over in the 4-byte or the 16-byte net.IP form at random), inbound(remote, external address: learned / never allocated / other router IP / guessed port), advance by {0,1/3,2/3,1-e,1,1+e,3} lifetimes; all 9 mapping x filtering behaviours, lifetimes 3 s/30 s/3000 s, 1..2 router IPs; oracle: same key and live => same external address; new key => address unlike every live mapping's, on a router IP, port 1..65535; idle > lifetime ends the mapping, inbound never prolongs it (the model is not touched by inbound, so any refresh shows up later); exactly one lifetime idle is 'either'; non-trivial = >=2 mappings and >=1 expiry/refresh decision away from the boundary; distinct by hash of configuration + events"

const ruleC03 = "same histories with the inbound side emphasised (55% inbound): forwarded iff a live mapping owns the address and the remote matches a recorded permission under the filtering behaviour, then to exactly the creator's address with source and payload unchanged and not aliased; otherwise dropped, and because the model ignores refused datagrams any side effect (permission, refresh, mapping) surfaces as a later disagreement; non-trivial = >=1 refused inbound followed by >=10 further steps and >=1 forwarded inbound; distinct by hash of configuration + events"

func TestC02NAPT(t *testing.T) {
	r := ev.New("C02", "napt-in-package", ruleC02)
	r.Essential = []string{"mapping/reused-live", "mapping/recreated-after-expiry", "mapping/refreshed-late", "inbound/refused", "nat/EI-EI", "nat/APD-APD", "nat/AD-AD", "pools/look-alike", "ipform/mixed"}
	r.MinForEssential = 1000
	r.Check(t, func(t *rapid.T, c *ev.Case) { runNAPT(t, c, "C02") })
}

func TestC03NAPT(t *testing.T) {
	r := ev.New("C03", "napt-in-package", ruleC03)
	r.Essential = []string{"inbound/forwarded", "refused/learned", "refused/never-allocated", "refused/other-ip", "inbound/either", "pools/look-alike", "ipform/mixed"}
	r.MinForEssential = 1000
	r.Check(t, func(t *rapid.T, c *ev.Case) { runNAPT(t, c, "C03") })
}

// ---- 1:1 mode ---------------------------------------------------------------

func runOneToOne(t *rapid.T, c *ev.Case, focus string) {
	k := rapid.IntRange(1, 5).Draw(t, "pairs")
	var ext, loc []net.IP
	// the pairs are configured in a drawn order (neither side sorted), external and local
	// numbering unrelated
	extOrder := rapid.Permutation([]int{1, 2, 3, 4, 5}).Draw(t, "extOrder")
	locOrder := rapid.Permutation([]int{2, 3, 4, 5, 6}).Draw(t, "locOrder")
	for i := 0; i < k; i++ {
		ext = append(ext, net.IPv4(27, 1, 1, byte(extOrder[i])))
		loc = append(loc, net.IPv4(192, 168, 0, byte(locOrder[i])))
	}
	if k >= 3 {
		c.Label("pairs>=3")
	}
	nat, err := vnet.VerifNewNAT(vnet.NATType{Mode: vnet.NATModeNAT1To1}, ext, loc)
	if err != nil {
		t.Fatalf("newNAT 1:1: %v", err)
	}
	c.Set("pairs", k)
	unpairedLoc := net.IPv4(192, 168, 0, 77)
	unpairedExt := net.IPv4(27, 1, 1, 77)
	steps := rapid.IntRange(1, 40).Draw(t, "steps")
	seq := 0
	for i := 0; i < steps; i++ {
		seq++
		pl := []byte(fmt.Sprintf("one2one-%05d", seq))
		orig := append([]byte(nil), pl...)
		port := rapid.SampledFrom([]int{1, 80, 5000, 49152, 65535}).Draw(t, "port")
		rem := remotes[rapid.IntRange(0, len(remotes)-1).Draw(t, "rem")]
		idx := rapid.IntRange(0, k).Draw(t, "idx") // k = unpaired
		if rapid.Bool().Draw(t, "dir") {
			// outbound
			srcIP := unpairedLoc
			if idx < k {
				srcIP = loc[idx]
			}
			src := form(&net.UDPAddr{IP: srcIP, Port: port}, rapid.Bool().Draw(t, "four"))
			to, err := nat.Outbound(vnet.VerifNewChunkUDP(src, rem, pl))
			c.Op("out %s>%s", src, rem)
			t.Logf("outbound %s -> %s : %v %v", src, rem, to, err)
			if idx == k {
				c.Label("outbound/unpaired")
				if to != nil && err == nil {
					// statement silent; nothing to check beyond not inventing a paired address
					for _, e := range ext {
						if udp(to.SourceAddr().String()).IP.Equal(e) {
							t.Fatalf("C02: unpaired local IP %s was rewritten to the external IP %s of another host", srcIP, e)
						}
					}
				}
				continue
			}
			if err != nil || to == nil {
				t.Fatalf("C02: 1:1 outbound from the paired local IP %s failed: %v", srcIP, err)
			}
			want := &net.UDPAddr{IP: ext[idx], Port: port}
			if to.SourceAddr().String() != want.String() {
				t.Fatalf("C02: 1:1 outbound %s was rewritten to %s, want the paired external IP with the port preserved: %s", src, to.SourceAddr(), want)
			}
			if to.DestinationAddr().String() != rem.String() || !bytes.Equal(to.UserData(), orig) {
				t.Fatalf("C02: 1:1 outbound changed destination or payload")
			}
			c.Label("outbound/paired")
			c.NonTrivial()
		} else {
			dstIP := unpairedExt
			if idx < k {
				dstIP = ext[idx]
			}
			dst := form(&net.UDPAddr{IP: dstIP, Port: port}, rapid.Bool().Draw(t, "four"))
			to, err := nat.Inbound(vnet.VerifNewChunkUDP(rem, dst, pl))
			c.Op("in %s>%s", rem, dst)
			t.Logf("inbound %s -> %s : %v %v", rem, dst, to, err)
			if idx == k {
				c.Label("inbound/unpaired")
				if err == nil && to != nil {
					t.Fatalf("C03: 1:1 inbound to the unpaired IP %s was forwarded to %s", dstIP, to.DestinationAddr())
				}
				continue
			}
			if err != nil || to == nil {
				t.Fatalf("C03: 1:1 inbound to the paired external IP %s was dropped: %v", dstIP, err)
			}
			want := &net.UDPAddr{IP: loc[idx], Port: port}
			if to.DestinationAddr().String() != want.String() {
				t.Fatalf("C03: 1:1 inbound %s was rewritten to %s, want the paired local IP with the port preserved: %s", dst, to.DestinationAddr(), want)
			}
			for j := range pl {
				pl[j] = 'z'
			}
			if to.SourceAddr().String() != rem.String() || !bytes.Equal(to.UserData(), orig) {
				t.Fatalf("C03: 1:1 inbound changed source or payload")
			}
			c.Label("inbound/paired")
			c.NonTrivial()
		}
	}
	_ = focus
}

const ruleOneToOne = "1:1 mode, k = 1..5 IP pairs configured in a drawn order: outbound from each paired local IP (and an unpaired one) with ports {1,80,5000,49152,65535}, inbound to each paired external IP (and an unpaired one); oracle: paired IP rewritten to its partner with the port preserved, other address and payload unchanged; unpaired inbound dropped; non-trivial = at least one paired translation; distinct by hash of the events"

func TestC02OneToOne(t *testing.T) {
	r := ev.New("C02", "one-to-one", ruleOneToOne)
	r.Check(t, func(t *rapid.T, c *ev.Case) { runOneToOne(t, c, "C02") })
}

func TestC03OneToOne(t *testing.T) {
	r := ev.New("C03", "one-to-one", ruleOneToOne)
	r.Check(t, func(t *rapid.T, c *ev.Case) { runOneToOne(t, c, "C03") })
}

// ---- port space -------------------------------------------------------------

const rulePortSpace = "port-space scenario run through the full mapping model: a symmetric NAT (address-and-port dependent mapping and filtering), one internal endpoint, a first phase of 1..16390 distinct remotes, optionally the clock advanced past the lifetime (all of them expire), a second phase so that more than 16380 mappings have been requested (the port counter wraps and ports of expired mappings are inherited), then 0..40 endpoints of the first phase send again, (optionally after the first phase has aged by 1/3 or 2/3 lifetime without expiring, and with a further half lifetime afterwards, so that mappings end their life shortly after the port search has passed over them), then up to 300 inbound probes from the remotes of mappings the model knows to be live and up to 100 to mappings whose lifetime has ended; oracle as in C02/C03: every external address is valid and differs from every live mapping's, a live mapping keeps its address, and a live mapping still admits its remote to its owner; a translation error for a new mapping hands out nothing and is not flagged; non-trivial = more mappings requested than there are ports in the dynamic range; distinct by hash of the parameters"

func TestC02PortSpace(t *testing.T) {
	r := ev.New("C02", "port-space", rulePortSpace)
	r.Check(t, func(t *rapid.T, c *ev.Case) { runPortSpace(t, c) })
}

// TestC03PortSpace runs the same scenario for C03: its inbound probes are C03's
// clauses (a live mapping admits its remote to its owner, an ended one nobody).
func TestC03PortSpace(t *testing.T) {
	r := ev.New("C03", "port-space", rulePortSpace)
	r.Check(t, func(t *rapid.T, c *ev.Case) { runPortSpace(t, c) })
}

func runPortSpace(t *rapid.T, c *ev.Case) {
	{
		n1 := rapid.SampledFrom([]int{1, 10, 10, 200, 5000, 16383, 16384, 16390}).Draw(t, "phase1")
		expire := rapid.Bool().Draw(t, "expire")
		n2 := rapid.SampledFrom([]int{0, 20, 400, 16390}).Draw(t, "phase2")
		if n1+n2 < 16380 {
			n2 = 16400 - n1
		}
		if !expire && n1 >= 16000 {
			// the range is (nearly) full of live mappings: every further request searches it
			// completely, a few dozen of them are enough (and all that is affordable)
			n2 = rapid.IntRange(1, 60).Draw(t, "phase2few")
		}
		again := rapid.IntRange(0, 40).Draw(t, "again")
		life := 30 * time.Second
		clock := vclock.New(time.Date(2031, 5, 5, 0, 0, 0, 0, time.UTC))
		vnet.VerifSetHooks(&vnet.VerifHooks{Now: clock.Now})
		defer vnet.VerifSetHooks(nil)
		// every remote has an IP of its own, so address-dependent mapping opens one mapping per
		// remote as well; the filtering behaviour is drawn independently of the mapping behaviour
		mb := Dep(rapid.IntRange(1, 2).Draw(t, "psMapping"))
		fb := Dep(rapid.IntRange(0, 2).Draw(t, "psFiltering"))
		if mb != fb {
			c.Label("port-space/mapping!=filtering")
		}
		nat, err := vnet.VerifNewNAT(natType(mb, fb, life), routerIPs[:1], nil)
		if err != nil {
			t.Fatalf("newNAT: %v", err)
		}
		w := &world{t: t, c: c, clock: clock, nat: nat, m: NewModel(mb, fb, life), nIPs: 1, focus: "C02"}
		c.Set("phase1", n1)
		c.Set("expire", expire)
		c.Set("phase2", n2)
		c.Set("again", again)
		c.NonTrivial()
		in := internals[0]
		rem := func(i int) *net.UDPAddr {
			return &net.UDPAddr{IP: net.IPv4(5, 6, byte(i>>8), byte(i)), Port: 1000 + i%50000}
		}
		quiet := t
		_ = quiet
		w.silent = true
		for i := 0; i < n1; i++ {
			w.outbound(in, rem(i))
		}
		if expire {
			clock.Advance(life + time.Second)
			c.Label("expired-prefix")
		} else if g := rapid.SampledFrom([]time.Duration{0, life / 3, 2 * life / 3, 2 * life / 3}).Draw(t, "gap1"); g > 0 {
			// the first phase ages without expiring: the second phase meets live holders
			clock.Advance(g)
			c.Label("aged-prefix")
		}
		for i := n1; i < n1+n2; i++ {
			w.outbound(in, rem(i))
		}
		if g := rapid.SampledFrom([]time.Duration{0, life / 2, 3 * life / 4}).Draw(t, "gap2"); g > 0 {
			// now the first phase may be past its lifetime although the port search of the
			// second phase has looked at its mappings less than a lifetime ago
			clock.Advance(g)
			c.Label("aged-after-wrap")
		}
		// endpoints of the first phase send again (their mappings are expired or live)
		for k := 0; k < again; k++ {
			i := rapid.IntRange(0, n1-1).Draw(t, "old")
			w.outbound(in, rem(i))
		}
		// every mapping the model knows to be live must still admit its remote, to its owner
		probes := 0
		for i := n1 + n2 - 1; i >= 0 && probes < 300; i -= 1 + (n1+n2)/300 {
			mp, live := w.m.Lookup(in, rem(i), clock.Offset())
			if mp != nil && live == 1 {
				w.inbound(rem(i), mp.Ext(), "learned")
				probes++
			}
		}
		// the youngest mappings hold the ports the wrapped search has taken over from the
		// oldest ones: all of them, not a sample
		for i := n1 + n2 - 1; i >= 0 && i >= n1+n2-80; i-- {
			mp, live := w.m.Lookup(in, rem(i), clock.Offset())
			if mp != nil && live == 1 {
				w.inbound(rem(i), mp.Ext(), "learned")
				probes++
			}
		}
		// and a mapping whose lifetime has ended without outbound traffic admits nobody,
		// whatever else has looked at it meanwhile
		expiredProbes := 0
		for i := 0; i < n1 && expiredProbes < 100; i += 1 + n1/100 {
			mp, live := w.m.Lookup(in, rem(i), clock.Offset())
			if mp != nil && live == 0 {
				w.inbound(rem(i), mp.Ext(), "expired")
				expiredProbes++
			}
		}
		c.Count("expired_probes", int64(expiredProbes))
		if c.Has("outbound/error") {
			c.Label("translation-errors")
		}
		c.Count("mappings_requested", int64(n1+n2+again))
		c.Count("inbound_probes", int64(probes))
	}
}
