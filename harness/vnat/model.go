// Package vnat holds the in-package checks of the vnet NAT (C02 mapping
// behaviour, C03 inbound filtering) on a virtual clock. The reference model
// is written from RFC 4787 and the property statements; external addresses
// are learned from the translator and constrained, never predicted.
package vnat

import (
	"fmt"
	"net"
	"time"
)

type Dep int // endpoint dependency: 0 independent, 1 address, 2 address+port

func depKey(d Dep, a *net.UDPAddr) string {
	switch d {
	case 1:
		return a.IP.String()
	case 2:
		return a.String()
	}
	return ""
}

type mapping struct {
	internal string
	bound    string
	ext      string
	perms    map[string]bool
	lastOut  time.Duration
	serial   int
}

type Model struct {
	Mapping, Filtering Dep
	Life               time.Duration
	byKey              map[string]*mapping
	byExt              map[string]*mapping
	Allocated          int
}

func NewModel(m, f Dep, life time.Duration) *Model {
	return &Model{Mapping: m, Filtering: f, Life: life, byKey: map[string]*mapping{}, byExt: map[string]*mapping{}}
}

// liveness of a mapping at virtual time now: 1 live, 0 dead, -1 exactly one
// lifetime after the last outbound datagram (unconstrained).
func (m *Model) live(mp *mapping, now time.Duration) int {
	idle := now - mp.lastOut
	switch {
	case idle < m.Life:
		return 1
	case idle == m.Life:
		return -1
	}
	return 0
}

func (m *Model) key(internal, remote *net.UDPAddr) string {
	return internal.String() + "|" + depKey(m.Mapping, remote)
}

// Lookup returns the mapping for an outbound datagram and its liveness.
func (m *Model) Lookup(internal, remote *net.UDPAddr, now time.Duration) (*mapping, int) {
	mp := m.byKey[m.key(internal, remote)]
	if mp == nil {
		return nil, 0
	}
	return mp, m.live(mp, now)
}

// LiveExts returns the external addresses of mappings that are certainly or
// possibly live, except the given one.
func (m *Model) LiveExts(now time.Duration, except *mapping) map[string]int {
	r := map[string]int{}
	for _, mp := range m.byKey {
		if mp == except {
			continue
		}
		if l := m.live(mp, now); l != 0 {
			r[mp.ext] = l
		}
	}
	return r
}

// Refresh records an outbound datagram through an existing live mapping.
func (m *Model) Refresh(mp *mapping, remote *net.UDPAddr, now time.Duration) {
	mp.perms[depKey(m.Filtering, remote)] = true
	mp.lastOut = now
}

// Create records a new mapping (any previous mapping of the key is gone).
func (m *Model) Create(internal, remote *net.UDPAddr, ext string, now time.Duration) *mapping {
	k := m.key(internal, remote)
	if old := m.byKey[k]; old != nil {
		if m.byExt[old.ext] == old {
			delete(m.byExt, old.ext)
		}
	}
	m.Allocated++
	mp := &mapping{internal: internal.String(), bound: depKey(m.Mapping, remote), ext: ext,
		perms: map[string]bool{depKey(m.Filtering, remote): true}, lastOut: now, serial: m.Allocated}
	m.byKey[k] = mp
	// an expired mapping that held this external address is superseded
	m.byExt[ext] = mp
	return mp
}

// Inbound returns the verdict for a datagram from remote to ext:
// forward (1) to the returned internal address, drop (0), or either (-1).
func (m *Model) Inbound(remote *net.UDPAddr, ext string, now time.Duration) (int, string, string) {
	mp := m.byExt[ext]
	if mp == nil {
		return 0, "", "no mapping owns " + ext
	}
	if !mp.perms[depKey(m.Filtering, remote)] {
		return 0, "", fmt.Sprintf("remote %s was never contacted through the mapping (filtering behaviour %d)", remote, m.Filtering)
	}
	switch m.live(mp, now) {
	case 1:
		return 1, mp.internal, ""
	case -1:
		return -1, mp.internal, "exactly one lifetime idle"
	}
	return 0, "", "mapping expired"
}

// Mapping is the exported view of a mapping (used by the end-to-end model).
type Mapping = mapping

// Ext returns the external address of the mapping.
func (m *mapping) Ext() string { return m.ext }

// Holder returns the liveness (1 live, -1 boundary, 0 none/dead) of the
// mapping that currently holds the external address, unless it is `except`.
func (m *Model) Holder(ext string, now time.Duration, except *mapping) int {
	mp := m.byExt[ext]
	if mp == nil || mp == except {
		return 0
	}
	return m.live(mp, now)
}

// Internal returns the internal endpoint that created the mapping.
func (m *mapping) Internal() string { return m.internal }
