package udpl

import (
	"fmt"
	"io"
	"net"
	"strings"
	"sync"
	"testing"
	"time"

	"github.com/pion/transport/v3/udp"
	"pgregory.net/rapid"

	"verifharness/ev"
	"verifharness/sched"
)

// C11 under controlled schedules: the window in which a datagram of a remote
// arrives while the Close of that remote's connection is under way.

type c11sScenario struct {
	Remotes int   // 1..2, each with an accepted connection
	Close   []int // per remote: Close calls on its connection (0..2)
	Send    []int // per remote: datagrams sent during the controlled phase (0..3)
	Accept  int   // Accept tasks (0..2)
}

func (sc c11sScenario) String() string {
	return fmt.Sprintf("remotes=%d close=%v send=%v accept=%d", sc.Remotes, sc.Close, sc.Send, sc.Accept)
}

const ruleC11Sched = "controlled-schedule variant: listener on a real loopback socket with 1..2 remotes whose connections have been accepted; tasks conn.Close (0..2 calls per connection), sender per remote (0..3 datagrams, one write per step), Accept (0..2) in a rapid-drawn schedule over every lock/atomic/channel operation of the yield-instrumented udp/conn.go and packetio/buffer.go, the listener's read loop running free (terminal quiescence rule); afterwards, with real I/O: the backlog is drained, every connection is read empty, one more datagram per remote is sent and the backlog drained again; oracle: at no point of the post-phase do two open connections have the same RemoteAddr; every datagram read from a connection was sent by that connection's remote, none twice, in sending order across the remote's successive connections; the final datagram of each remote is readable from exactly one open connection of that remote; non-trivial = a datagram of a remote was sent while a Close of its connection had started and not finished; distinct by hash of scenario + step trace"

func TestC11Schedules(t *testing.T) {
	r := ev.New("C11", "schedules", ruleC11Sched)
	r.Essential = []string{"send-inside-close"}
	r.MinForEssential = 150
	r.Assume("real loopback UDP sockets; wake-ups by the netpoller are not controlled (terminal quiescence rule)")
	r.Check(t, func(t *rapid.T, c *ev.Case) {
		sc := c11sScenario{Remotes: rapid.IntRange(1, 2).Draw(t, "remotes"), Accept: rapid.SampledFrom([]int{0, 1, 1, 2}).Draw(t, "accept")}
		for i := 0; i < sc.Remotes; i++ {
			sc.Close = append(sc.Close, rapid.SampledFrom([]int{0, 1, 1, 1, 2}).Draw(t, "close"))
			sc.Send = append(sc.Send, rapid.IntRange(0, 3).Draw(t, "send"))
		}
		rc := sched.NewRapidChooser(t)
		c.Set("scenario", sc.String())
		c.Label("strategy/" + sched.StrategyNames[rc.Strategy])
		t.Logf("scenario: %s strategy=%s", sc, sched.StrategyNames[rc.Strategy])
		var trace []string
		msg := runC11Sched(sc, chooserFunc(func(s *sched.Session, en []*sched.Task) *sched.Task {
			p := rc.Pick(s, en)
			if p != nil {
				trace = append(trace, p.Name+"@"+p.Label())
				if strings.HasPrefix(p.Name, "sender") {
					// is a Close of this remote's connection under way?
					idx := strings.TrimPrefix(p.Name, "sender")
					for _, x := range s.Tasks() {
						if strings.HasPrefix(x.Name, "cclose"+idx+".") && x.State() != sched.Finished && len(x.Passed()) > 1 {
							c.Label("send-inside-close")
							c.NonTrivial()
						}
					}
				}
			}
			return p
		}), c, t.Logf)
		for _, x := range trace {
			c.Op("%s", x)
		}
		if msg != "" {
			t.Fatalf("%s", msg)
		}
	})
}

type chooserFunc func(s *sched.Session, en []*sched.Task) *sched.Task

func (f chooserFunc) Pick(s *sched.Session, en []*sched.Task) *sched.Task { return f(s, en) }

func runC11Sched(sc c11sScenario, ch sched.Chooser, c *ev.Case, logf func(string, ...any)) (msg string) {
	fail := func(f string, a ...any) {
		if msg == "" {
			msg = fmt.Sprintf(f, a...)
		}
	}
	ln, err := (&udp.ListenConfig{}).Listen("udp", &net.UDPAddr{IP: loop, Port: 0})
	if err != nil {
		return "VERIF-INFRA: listen: " + err.Error()
	}
	laddr := ln.Addr().(*net.UDPAddr)
	var remotes []*net.UDPConn
	var conns []net.Conn // every connection ever returned by Accept, in order
	var cmu sync.Mutex
	defer func() {
		cmu.Lock()
		cl := []io.Closer{ln}
		for _, cn := range conns {
			cl = append(cl, cn)
		}
		cmu.Unlock()
		closeAll(cl)
		for _, r := range remotes {
			_ = r.Close()
		}
	}()
	for i := 0; i < sc.Remotes; i++ {
		r, err := net.DialUDP("udp", nil, laddr)
		if err != nil {
			return "VERIF-INFRA: dial: " + err.Error()
		}
		remotes = append(remotes, r)
		if _, err := r.Write([]byte(fmt.Sprintf("r%d-hello", i))); err != nil {
			return "VERIF-INFRA: " + err.Error()
		}
		cn, err := ln.Accept()
		if err != nil {
			return "VERIF-INFRA: setup accept: " + err.Error()
		}
		buf := make([]byte, 64)
		if _, err := cn.Read(buf); err != nil {
			return "VERIF-INFRA: setup read: " + err.Error()
		}
		conns = append(conns, cn)
	}
	first := append([]net.Conn(nil), conns...)
	remoteOf := func(cn net.Conn) int {
		for i, r := range remotes {
			if r.LocalAddr().String() == cn.RemoteAddr().String() {
				return i
			}
		}
		return -1
	}

	s := sched.New()
	s.QuiesceGap = 1500 * time.Microsecond
	s.MaxSteps = 6000
	install(s)
	over := false
	end := func() {
		if !over {
			over = true
			s.Abort()
		}
	}
	defer func() {
		end()
		// release the Accept tasks and helpers before waiting for the tasks to finish
		closeAll([]io.Closer{ln})
		s.Drain(2 * time.Second)
		uninstall()
	}()
	closed := map[net.Conn]bool{}
	sent := make([][]string, sc.Remotes)
	for i := 0; i < sc.Remotes; i++ {
		i := i
		for k := 0; k < sc.Close[i]; k++ {
			s.Go(fmt.Sprintf("cclose%d.%d", i, k), func() {
				_ = first[i].Close()
				cmu.Lock()
				closed[first[i]] = true
				cmu.Unlock()
			})
		}
		if sc.Send[i] > 0 {
			s.Go(fmt.Sprintf("sender%d", i), func() {
				for k := 0; k < sc.Send[i]; k++ {
					m := fmt.Sprintf("r%d-d%d", i, k)
					cmu.Lock()
					sent[i] = append(sent[i], m)
					cmu.Unlock()
					_, _ = remotes[i].Write([]byte(m))
					s.Yield("sender:next")
				}
			})
		}
	}
	for k := 0; k < sc.Accept; k++ {
		s.Go(fmt.Sprintf("accept%d", k), func() {
			cn, err := ln.Accept()
			if err == nil {
				cmu.Lock()
				conns = append(conns, cn)
				cmu.Unlock()
			}
		})
	}
	s.Run(ch)
	if s.Discarded {
		if c != nil {
			c.Label("discarded/step-limit")
		}
		return ""
	}
	logf("terminal state:\n%s", s.Describe())
	for _, tk := range s.Tasks() {
		if p := tk.Panicked(); p != nil {
			return fmt.Sprintf("C11: task %s panicked: %v\n%s", tk.Name, p, s.Describe())
		}
	}
	for _, tk := range s.BlockedTasks() {
		if !strings.HasPrefix(tk.Name, "accept") {
			st, fr := tk.WaitInfo()
			return fmt.Sprintf("C11/C12: task %s is blocked in [%s] at %s\n%s", tk.Name, st, fr, s.Describe())
		}
	}
	end()
	// ---- post-phase, real I/O ----------------------------------------------------
	// pending Accept tasks of the scenario keep running free: they are part of the drain
	drain := func() {
		for {
			got := make(chan net.Conn, 1)
			go func() {
				cn, err := ln.Accept()
				if err == nil {
					got <- cn
				}
			}()
			select {
			case cn := <-got:
				cmu.Lock()
				conns = append(conns, cn)
				cmu.Unlock()
				continue
			case <-time.After(15 * time.Millisecond):
			}
			// the helper stays parked in Accept; a later connection it takes is recorded too
			go func() {
				select {
				case cn := <-got:
					cmu.Lock()
					conns = append(conns, cn)
					cmu.Unlock()
				case <-time.After(10 * time.Second):
				}
			}()
			return
		}
	}
	unique := func(when string) bool {
		cmu.Lock()
		defer cmu.Unlock()
		open := map[string]net.Conn{}
		for _, cn := range conns {
			if closed[cn] {
				continue
			}
			k := cn.RemoteAddr().String()
			if o, dup := open[k]; dup && o != cn {
				fail("C11: %s two open connections exist for the remote %s (remote %d)\n%s", when, k, remoteOf(cn), s.Describe())
				return false
			}
			open[k] = cn
		}
		return true
	}
	received := map[net.Conn][]string{}
	readAll := func() {
		cmu.Lock()
		cs := append([]net.Conn(nil), conns...)
		cmu.Unlock()
		for _, cn := range cs {
			for {
				buf := make([]byte, 64)
				_ = cn.SetReadDeadline(time.Now().Add(2 * time.Millisecond))
				n, err := cn.Read(buf)
				if err != nil {
					break
				}
				received[cn] = append(received[cn], string(buf[:n]))
			}
		}
	}
	time.Sleep(2 * time.Millisecond) // datagrams of the last steps reach the read loop
	drain()
	if !unique("after the controlled phase") {
		return msg
	}
	readAll()
	// one more datagram per remote: it must reach exactly one open connection of that remote
	for i, r := range remotes {
		m := fmt.Sprintf("r%d-final", i)
		sent[i] = append(sent[i], m)
		_, _ = r.Write([]byte(m))
	}
	// wait until every final datagram has been read somewhere (loopback does not lose it;
	// how long the read loop takes to get to it depends on the load of the machine)
	finalSeen := func() bool {
		n := 0
		for i := range remotes {
			want := fmt.Sprintf("r%d-final", i)
			for _, ms := range received {
				for _, m := range ms {
					if m == want {
						n++
					}
				}
			}
		}
		return n >= len(remotes)
	}
	for limit := time.Now().Add(5 * time.Second); ; {
		drain()
		readAll()
		if finalSeen() || time.Now().After(limit) {
			break
		}
	}
	drain()
	readAll()
	if !unique("after one more datagram per remote") {
		return msg
	}
	cmu.Lock()
	defer cmu.Unlock()
	for i := range remotes {
		var seq []string
		finals := 0
		for _, cn := range conns {
			if remoteOf(cn) != i {
				continue
			}
			for _, m := range received[cn] {
				if m == fmt.Sprintf("r%d-final", i) {
					finals++
					if closed[cn] {
						fail("C11: the last datagram of remote %d was handed to a connection that had been closed before it was sent", i)
					}
				}
				seq = append(seq, m)
			}
		}
		for cn, ms := range received {
			if remoteOf(cn) == i {
				continue
			}
			for _, m := range ms {
				if strings.HasPrefix(m, fmt.Sprintf("r%d-", i)) {
					fail("C11: datagram %q of remote %d was read from the connection of %s", m, i, cn.RemoteAddr())
				}
			}
		}
		// subsequence of the sending order, no duplicates
		pos := 0
		for _, m := range seq {
			found := false
			for pos < len(sent[i]) {
				pos++
				if sent[i][pos-1] == m {
					found = true
					break
				}
			}
			if !found {
				fail("C11: remote %d sent %v; its connections, in the order they were created, returned %v (reordered, duplicated or invented)", i, sent[i], seq)
				break
			}
		}
		if finals != 1 {
			fail("C11: the last datagram of remote %d was read %d times from the remote's open connections (sent %v, received %v)\n%s", i, finals, sent[i], seq, s.Describe())
		}
	}
	if c != nil {
		c.Count("schedules", 1)
	}
	return msg
}
