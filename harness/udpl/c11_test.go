package udpl

import (
	"bytes"
	"encoding/binary"
	"errors"
	"fmt"
	"io"
	"net"
	"sync"
	"testing"
	"time"

	"github.com/pion/transport/v3/udp"
	"pgregory.net/rapid"

	"verifharness/ev"
)

func dgram(remote, seq, size int, first byte) []byte {
	if size < 9 {
		size = 9
	}
	p := make([]byte, size)
	p[0] = first
	binary.BigEndian.PutUint32(p[1:], uint32(remote))
	binary.BigEndian.PutUint32(p[5:], uint32(seq))
	for i := 9; i < size; i++ {
		p[i] = byte(remote*17 + seq*3 + i)
	}
	return p
}

type mconn struct {
	conn     net.Conn
	queue    [][]byte
	accepted bool
}

const ruleC11Seq = "sequential phase on a real loopback socket: listener with backlog from {1,2,4,128}, accept filter from {none, first byte != 'X'}, batch reading {off, size 2, size 8}; listener on 127.0.0.1, on the unspecified address of a dual-stack socket, on 0.0.0.0 or on [::1]; 1..6 remote sockets (127.0.0.1 or ::1 with different ports, other addresses of 127/8 with the port of the first remote, on the dual-stack listener also ::1 with the port of the IPv4 remote); steps send(remote, size 9..8192 or empty, first byte 'X' or not), burst (the read loop is parked inside the accept filter by a gate datagram while 2..6 datagrams, with runs of one remote, are sent back to back, so that they are dispatched from one batch), accept, read, close, close-again (of a connection closed earlier, also after its remote has been given a new one), send-again-after-close; after every send a marker datagram from an always-accepted remote is sent and read back, which (single-threaded FIFO read loop) proves the earlier datagram has been dispatched, so refusals are decidable without sleeping; model: remote -> connection/backlog/queue; oracle: Accept returns the connections in creation order with the right RemoteAddr, every Read returns exactly the next datagram of that remote, byte-identical, nothing on another connection, filtered or overflowing datagrams create nothing (verified at the end: the backlog holds exactly the model's connections), after Close a new datagram creates a fresh connection; non-trivial = >=2 remotes interleaved and at least one of close-then-reconnect, backlog overflow, filter refusal; distinct by hash of config + steps"

func TestC11Sequential(t *testing.T) {
	r := ev.New("C11", "sequential", ruleC11Seq)
	r.Essential = []string{"reconnect-after-close", "backlog-overflow", "filter-refusal", "batch/8", "empty-datagram", "burst-in-one-batch", "close-again-with-successor"}
	r.MinForEssential = 300
	r.Assume("real loopback UDP: the kernel delivers datagrams from one socket to another in order and, at these volumes, without loss")
	r.Check(t, func(t *rapid.T, c *ev.Case) {
		backlog := rapid.SampledFrom([]int{1, 2, 4, 128}).Draw(t, "backlog")
		filter := rapid.Bool().Draw(t, "filter")
		batch := rapid.SampledFrom([]int{0, 0, 2, 8}).Draw(t, "batch")
		nr := rapid.IntRange(1, 6).Draw(t, "remotes")
		lc := udp.ListenConfig{Backlog: backlog}
		// The accept filter also serves as a gate: a datagram starting with 'G' (always from a
		// fresh remote, always refused) parks the listener's read loop inside the filter until
		// the harness releases it, so that the datagrams sent meanwhile are read in ONE batch.
		gateIn := make(chan struct{}, 8)
		gateOut := make(chan struct{})
		lc.AcceptFilter = func(b []byte) bool {
			if len(b) > 0 && b[0] == 'G' {
				gateIn <- struct{}{}
				<-gateOut
				return false
			}
			if filter {
				return len(b) == 0 || b[0] != 'X'
			}
			return true
		}
		if batch > 0 {
			lc.Batch = udp.BatchIOConfig{Enable: true, ReadBatchSize: batch, WriteBatchSize: 1, WriteBatchInterval: time.Millisecond}
		}
		c.Set("backlog", backlog)
		c.Set("filter", filter)
		c.Set("batch", batch)
		c.Labelf("batch/%d", batch)
		// The listener's address family: 127.0.0.1 ("udp"), the unspecified address on a
		// dual-stack socket ("udp", where IPv4 senders show up as IPv4-mapped addresses and IPv6
		// senders may use the very port of an IPv4 one), 0.0.0.0 ("udp4") or [::1] ("udp6").
		family := rapid.SampledFrom([]string{"loop4", "loop4", "loop4", "dual", "dual", "any4", "loop6"}).Draw(t, "family")
		var ln net.Listener
		var err error
		switch family {
		case "dual":
			ln, err = lc.Listen("udp", &net.UDPAddr{})
		case "any4":
			ln, err = lc.Listen("udp4", &net.UDPAddr{IP: net.IPv4zero})
		case "loop6":
			ln, err = lc.Listen("udp6", &net.UDPAddr{IP: net.IPv6loopback})
		}
		if ln == nil || err != nil { // no IPv6 on this machine: the plain loopback listener
			family = "loop4"
			ln, err = lc.Listen("udp", &net.UDPAddr{IP: loop, Port: 0})
		}
		if err != nil {
			t.Fatalf("listen: %v", err)
		}
		c.Label("listener/" + family)
		laddr := &net.UDPAddr{IP: loop, Port: ln.Addr().(*net.UDPAddr).Port}
		laddr6 := &net.UDPAddr{IP: net.IPv6loopback, Port: laddr.Port}
		if family == "loop6" {
			laddr = laddr6
		}
		var all []net.Conn
		defer func() { closeAll(append([]io.Closer{ln}, asClosers(all)...)) }()
		dial := func() *net.UDPConn {
			r, err := net.DialUDP("udp", nil, laddr)
			if err != nil {
				t.Fatalf("dial: %v", err)
			}
			return r
		}
		// marker remote, accepted first
		marker := dial()
		defer marker.Close() //nolint:errcheck
		if _, err := marker.Write([]byte("M-hello")); err != nil {
			t.Fatal(err)
		}
		mc, err := ln.Accept()
		if err != nil {
			t.Fatalf("accept marker: %v", err)
		}
		all = append(all, mc)
		mbuf := make([]byte, 9000)
		_ = mc.SetReadDeadline(time.Now().Add(5 * time.Second))
		if _, err := mc.Read(mbuf); err != nil {
			t.Fatalf("marker hello: %v", err)
		}
		// The marker remote has an open, accepted connection: every datagram it sends must come
		// out of that connection. One that does not while a later one does was lost by the
		// listener (loopback sockets do not drop at these volumes, and never selectively).
		syncNo := 0
		sync1 := func() {
			syncNo++
			want := fmt.Sprintf("M-sync-%d", syncNo)
			if _, err := marker.Write([]byte(want)); err != nil {
				t.Fatal(err)
			}
			resent := false
			for {
				_ = mc.SetReadDeadline(time.Now().Add(1500 * time.Millisecond))
				n, err := mc.Read(mbuf)
				if err != nil {
					if resent {
						// (a machine that stood still shows in the stall detector's VERIF-INFRA line,
						// which takes precedence in the driver)
						t.Fatalf("C11: neither %q nor its repetition, sent 1.5 s apart by remote %s whose connection is open and accepted, came out of that connection within 3 s (%v): the listener no longer delivers to an open connection", want, mc.RemoteAddr(), err)
					}
					resent = true
					if _, err := marker.Write([]byte(want + "-again")); err != nil {
						t.Fatal(err)
					}
					continue
				}
				got := string(mbuf[:n])
				switch {
				case got == want:
					if resent { // only slow: take the repetition out of the connection as well
						_ = mc.SetReadDeadline(time.Now().Add(3 * time.Second))
						if n, err := mc.Read(mbuf); err != nil || string(mbuf[:n]) != want+"-again" {
							t.Fatalf("VERIF-INFRA: the repeated marker did not come back (%q, %v)", mbuf[:max(n, 0)], err)
						}
						c.Label("marker/slow")
					}
					return
				case resent && got == want+"-again":
					t.Fatalf("C11: datagram %q of remote %s, whose connection is open and accepted, never came out of that connection although the next datagram of the same remote did: a datagram was dropped after it had been received", want, mc.RemoteAddr())
				default:
					t.Fatalf("C11: the connection of the marker remote (%s) returned a %d-byte datagram that its remote never sent (a datagram of another remote was delivered to it)", mc.RemoteAddr(), n)
				}
			}
		}
		remotes := make([]*net.UDPConn, nr)
		// some remotes share the PORT of remote 0 and differ in the address only (the whole
		// of 127/8 is loopback): 127.0.0.2, 127.0.1.1, 127.1.0.1, 127.1.1.1
		altIPs := []net.IP{net.IPv4(127, 0, 0, 2), net.IPv4(127, 0, 1, 1), net.IPv4(127, 1, 0, 1), net.IPv4(127, 1, 1, 1), net.IPv4(127, 2, 0, 1)}
		for i := range remotes {
			if i > 0 && rapid.Bool().Draw(t, "samePort") {
				port := remotes[0].LocalAddr().(*net.UDPAddr).Port
				ip := altIPs[(i-1)%len(altIPs)]
				switch {
				case family == "dual" && i%2 == 1:
					// an IPv6 remote with the port of the IPv4 remote 0
					if r, err := net.DialUDP("udp6", &net.UDPAddr{IP: net.IPv6loopback, Port: port}, laddr6); err == nil {
						remotes[i] = r
						c.Label("remote/ipv6-with-the-port-of-an-ipv4-remote")
					}
				case family == "loop6":
				default:
					if r, err := net.DialUDP("udp", &net.UDPAddr{IP: ip, Port: port}, laddr); err == nil {
						remotes[i] = r
						c.Label("remote/same-port-other-address")
					}
				}
			}
			if remotes[i] == nil {
				remotes[i] = dial()
			}
			defer remotes[i].Close() //nolint:errcheck
		}
		model := map[int]*mconn{} // live (accepted or pending) connection per remote
		var pending []int         // remotes whose connection waits in the backlog, FIFO
		seq := 0
		closedConn := map[int]net.Conn{}
		accept := func() {
			if len(pending) == 0 {
				return
			}
			i := pending[0]
			pending = pending[1:]
			type accRes struct {
				cn  net.Conn
				err error
			}
			ch := make(chan accRes, 1)
			go func() { cn, err := ln.Accept(); ch <- accRes{cn, err} }()
			var cn net.Conn
			select {
			case a := <-ch:
				cn, err = a.cn, a.err
			case <-time.After(3 * time.Second):
				closeAll([]io.Closer{ln}) // releases the helper goroutine
				t.Fatalf("C11: Accept did not return within 3 s although the first datagram of remote %d was admitted (no filter refusal, backlog had room) and must have created a connection", i)
			}
			if err != nil {
				t.Fatalf("C11: Accept failed (%v) although the connection of remote %d waits in the backlog", err, i)
			}
			all = append(all, cn)
			want := remotes[i].LocalAddr().String()
			if cn.RemoteAddr().String() != want {
				t.Fatalf("C11: Accept returned the connection of %s, the oldest pending connection belongs to remote %d (%s)", cn.RemoteAddr(), i, want)
			}
			m := model[i]
			m.conn, m.accepted = cn, true
			if old := closedConn[i]; old != nil {
				c.Label("reconnect-after-close")
				if old == cn {
					t.Fatalf("C11: after Close, the new datagram of remote %d was attached to the closed connection object instead of a fresh one", i)
				}
			}
			c.Op("accept -> remote %d", i)
			t.Logf("accept -> remote %d", i)
		}
		read := func(i int) {
			m := model[i]
			if m == nil || !m.accepted || len(m.queue) == 0 {
				return
			}
			buf := make([]byte, 9000)
			_ = m.conn.SetReadDeadline(time.Now().Add(5 * time.Second))
			n, err := m.conn.Read(buf)
			if err != nil {
				t.Fatalf("C11: Read on the connection of remote %d failed (%v) although %d datagram(s) from it were dispatched", i, err, len(m.queue))
			}
			want := m.queue[0]
			m.queue = m.queue[1:]
			if !bytes.Equal(buf[:n], want) {
				from := "?"
				if n >= 9 {
					from = fmt.Sprintf("remote %d seq %d", binary.BigEndian.Uint32(buf[1:]), binary.BigEndian.Uint32(buf[5:]))
				}
				t.Fatalf("C11: connection of remote %d returned a %d-byte datagram (%s), expected its next datagram of %d bytes (seq %d)", i, n, from, len(want), binary.BigEndian.Uint32(want[5:]))
			}
			c.Op("read remote %d -> %d bytes", i, n)
		}
		// apply updates the model for one datagram that the listener has dispatched
		apply := func(i int, p []byte) string {
			m := model[i]
			switch {
			case m != nil:
				m.queue = append(m.queue, p)
				return "queued on its connection"
			case filter && len(p) > 0 && p[0] == 'X':
				c.Label("filter-refusal")
				return "refused by the accept filter"
			case len(pending) >= backlog:
				c.Label("backlog-overflow")
				return "dropped: backlog full"
			}
			model[i] = &mconn{queue: [][]byte{p}}
			pending = append(pending, i)
			return "created a connection"
		}
		steps := rapid.IntRange(1, 50).Draw(t, "steps")
		interleaved := map[int]bool{}
		for s := 0; s < steps; s++ {
			i := rapid.IntRange(0, nr-1).Draw(t, "remote")
			switch op := rapid.IntRange(0, 99).Draw(t, "op"); {
			case op < 50:
				size := rapid.IntRange(9, 200).Draw(t, "size")
				switch rapid.IntRange(0, 9).Draw(t, "sk") {
				case 0:
					size = rapid.IntRange(201, 8192).Draw(t, "bsize")
				case 1:
					size = 8192
				}
				first := byte('D')
				if rapid.IntRange(0, 3).Draw(t, "x") == 0 {
					first = 'X'
				}
				seq++
				p := dgram(i, seq, size, first)
				if rapid.IntRange(0, 19).Draw(t, "empty") == 0 {
					p = []byte{}
					c.Label("empty-datagram")
				}
				if _, err := remotes[i].Write(p); err != nil {
					t.Fatalf("remote write: %v", err)
				}
				sync1()
				interleaved[i] = true
				what := apply(i, p)
				c.Op("send remote %d %d bytes first=%c: %s", i, len(p), first, what)
				t.Logf("send remote %d: %d bytes first=%c -> %s (pending %v)", i, len(p), first, what, pending)
			case op < 58:
				// burst: park the read loop in the filter, send 2..6 datagrams back to back,
				// release: they are dispatched from one batch (when batch reading is on)
				g := dial()
				defer g.Close() //nolint:errcheck
				if _, err := g.Write([]byte("GATE")); err != nil {
					t.Fatalf("gate write: %v", err)
				}
				select {
				case <-gateIn:
				case <-time.After(5 * time.Second):
					t.Fatalf("VERIF-INFRA: the read loop never reached the accept filter")
				}
				nb := rapid.IntRange(2, 6).Draw(t, "burst")
				type bd struct {
					i int
					p []byte
				}
				var sent []bd
				for k := 0; k < nb; k++ {
					bi := rapid.IntRange(0, nr-1).Draw(t, "bremote")
					if k > 0 && rapid.Bool().Draw(t, "same") {
						bi = sent[k-1].i // runs of one remote inside the batch
					}
					first := byte('D')
					if rapid.IntRange(0, 2).Draw(t, "bx") == 0 {
						first = 'X'
					}
					seq++
					p := dgram(bi, seq, rapid.IntRange(9, 300).Draw(t, "bsize"), first)
					if _, err := remotes[bi].Write(p); err != nil {
						t.Fatalf("remote write: %v", err)
					}
					sent = append(sent, bd{bi, p})
				}
				gateOut <- struct{}{}
				sync1()
				c.Label("burst-in-one-batch")
				for _, b := range sent {
					interleaved[b.i] = true
					what := apply(b.i, b.p)
					c.Op("burst remote %d %d bytes first=%c: %s", b.i, len(b.p), b.p[0], what)
					t.Logf("burst: remote %d %d bytes first=%c -> %s (pending %v)", b.i, len(b.p), b.p[0], what, pending)
				}
			case op < 65:
				accept()
			case op < 88:
				read(i)
			case op < 91 && closedConn[i] != nil:
				// close a connection again that was closed earlier: without effect, in
				// particular on the connection that the remote has got since
				_ = closedConn[i].Close()
				c.Label("close-again")
				if model[i] != nil {
					c.Label("close-again-with-successor")
				}
				c.Op("close again the old connection of remote %d", i)
				t.Logf("close again the old connection of remote %d (successor: %v)", i, model[i] != nil)
			default:
				m := model[i]
				if m == nil || !m.accepted {
					continue
				}
				if err := m.conn.Close(); err != nil {
					t.Fatalf("C11: Close of the connection of remote %d: %v", i, err)
				}
				// the closed connection stays closed
				if _, err := m.conn.Read(make([]byte, 16)); err == nil && len(m.queue) == 0 {
					t.Fatalf("C11: Read on a closed, drained connection succeeded")
				}
				closedConn[i] = m.conn
				delete(model, i)
				c.Label("closed-a-conn")
				c.Op("close remote %d", i)
				t.Logf("close connection of remote %d", i)
			}
		}
		// final: drain the backlog in order, then every queue
		for len(pending) > 0 {
			accept()
		}
		for i, m := range model {
			for len(m.queue) > 0 {
				read(i)
			}
			// nothing else may be readable
			_ = m.conn.SetReadDeadline(time.Now().Add(300 * time.Microsecond))
			if n, err := m.conn.Read(make([]byte, 9000)); err == nil {
				t.Fatalf("C11: connection of remote %d holds an extra %d-byte datagram that no model datagram accounts for", i, n)
			}
		}
		// the backlog must be empty now: a further Accept may only fail after Close
		closeAll([]io.Closer{ln})
		if cn, err := ln.Accept(); err == nil {
			t.Fatalf("C11: a connection for %s exists that no admitted first datagram accounts for (filtered or overflowing datagram created a connection?)", cn.RemoteAddr())
		}
		if len(interleaved) >= 2 && (c.Has("reconnect-after-close") || c.Has("backlog-overflow") || c.Has("filter-refusal")) {
			c.NonTrivial()
		}
	})
}

const ruleC11Conc = "concurrent phase: 2..6 remotes send bursts of 5..60 tagged datagrams concurrently with one acceptor goroutine and one reader goroutine per accepted connection (backlog 128, optional batch reading); the kernel may drop under load, so completeness is not asserted; oracle: every datagram read from a connection carries that connection's remote (isolation), per-remote order, no duplicates, never two accepted connections with the same RemoteAddr; non-trivial = >=3 remotes and >=100 datagrams; distinct by hash of the plan"

func TestC11Concurrent(t *testing.T) {
	r := ev.New("C11", "concurrent", ruleC11Conc)
	r.Check(t, func(t *rapid.T, c *ev.Case) {
		nr := rapid.IntRange(2, 6).Draw(t, "remotes")
		batch := rapid.SampledFrom([]int{0, 0, 4}).Draw(t, "batch")
		lc := udp.ListenConfig{}
		if batch > 0 {
			lc.Batch = udp.BatchIOConfig{Enable: true, ReadBatchSize: batch, WriteBatchSize: 1, WriteBatchInterval: time.Millisecond}
		}
		counts := make([]int, nr)
		total := 0
		for i := range counts {
			counts[i] = rapid.IntRange(5, 60).Draw(t, "n")
			total += counts[i]
		}
		c.Op("counts %v batch %d", counts, batch)
		if nr >= 3 && total >= 100 {
			c.NonTrivial()
		}
		ln, err := lc.Listen("udp", &net.UDPAddr{IP: loop, Port: 0})
		if err != nil {
			t.Fatalf("listen: %v", err)
		}
		laddr := ln.Addr().(*net.UDPAddr)
		remotes := make([]*net.UDPConn, nr)
		portToIdx := map[int]int{}
		for i := range remotes {
			remotes[i], err = net.DialUDP("udp", nil, laddr)
			if err != nil {
				t.Fatal(err)
			}
			portToIdx[remotes[i].LocalAddr().(*net.UDPAddr).Port] = i
			defer remotes[i].Close() //nolint:errcheck
		}
		var mu sync.Mutex
		var problems []string
		seenAddr := map[string]bool{}
		var rwg sync.WaitGroup
		var conns []net.Conn
		got := 0
		acceptDone := make(chan struct{})
		go func() {
			defer close(acceptDone)
			for {
				cn, err := ln.Accept()
				if err != nil {
					return
				}
				addr := cn.RemoteAddr().String()
				mu.Lock()
				if seenAddr[addr] {
					problems = append(problems, "two accepted connections have the remote address "+addr)
				}
				seenAddr[addr] = true
				conns = append(conns, cn)
				mu.Unlock()
				idx, ok := portToIdx[cn.RemoteAddr().(*net.UDPAddr).Port]
				if !ok {
					mu.Lock()
					problems = append(problems, "connection for an address nobody sends from: "+addr)
					mu.Unlock()
					continue
				}
				rwg.Add(1)
				go func(cn net.Conn, idx int) {
					defer rwg.Done()
					buf := make([]byte, 2048)
					last := -1
					for {
						n, err := cn.Read(buf)
						if err != nil {
							if !errors.Is(err, io.EOF) {
								var ne net.Error
								if !errors.As(err, &ne) {
									mu.Lock()
									problems = append(problems, fmt.Sprintf("read error on connection of remote %d: %v", idx, err))
									mu.Unlock()
								}
							}
							return
						}
						if n < 9 {
							mu.Lock()
							problems = append(problems, fmt.Sprintf("connection of remote %d returned a %d-byte datagram nobody sent", idx, n))
							mu.Unlock()
							return
						}
						from, sq := int(binary.BigEndian.Uint32(buf[1:])), int(binary.BigEndian.Uint32(buf[5:]))
						mu.Lock()
						got++
						switch {
						case from != idx:
							problems = append(problems, fmt.Sprintf("connection of remote %d returned a datagram of remote %d", idx, from))
						case sq <= last:
							problems = append(problems, fmt.Sprintf("connection of remote %d returned datagram %d after %d (reordered or duplicated)", idx, sq, last))
						case !bytes.Equal(buf[:n], dgram(from, sq, n, 'D')):
							problems = append(problems, fmt.Sprintf("connection of remote %d returned a modified datagram", idx))
						}
						mu.Unlock()
						last = sq
					}
				}(cn, idx)
			}
		}()
		var swg sync.WaitGroup
		for i := range remotes {
			swg.Add(1)
			go func(i int) {
				defer swg.Done()
				for k := 0; k < counts[i]; k++ {
					_, _ = remotes[i].Write(dgram(i, k, 9+(i*31+k*7)%1200, 'D'))
				}
			}(i)
		}
		swg.Wait()
		// let the listener drain what the kernel holds, then shut down
		deadline := time.Now().Add(200 * time.Millisecond)
		for time.Now().Before(deadline) {
			mu.Lock()
			g := got
			mu.Unlock()
			if g >= total {
				break
			}
			time.Sleep(200 * time.Microsecond)
		}
		closeAll([]io.Closer{ln})
		select {
		case <-acceptDone:
		case <-time.After(3 * time.Second):
			t.Fatalf("C11/C12: Accept did not return after the listener was closed")
		}
		mu.Lock()
		cs := asClosers(conns)
		mu.Unlock()
		closeAll(cs)
		readersDone := make(chan struct{})
		go func() { rwg.Wait(); close(readersDone) }()
		select {
		case <-readersDone:
		case <-time.After(3 * time.Second):
			t.Fatalf("C11/C12: a Read did not return after its connection was closed")
		}
		mu.Lock()
		defer mu.Unlock()
		c.Count("datagrams_sent", int64(total))
		c.Count("datagrams_received", int64(got))
		if len(problems) > 0 {
			t.Fatalf("C11: %s (and %d more)", problems[0], len(problems)-1)
		}
	})
}

func asClosers(cs []net.Conn) []io.Closer {
	r := make([]io.Closer, len(cs))
	for i, c := range cs {
		r[i] = c
	}
	return r
}

// closeAll closes from helper goroutines and waits at most a second: on a
// broken tree a Close may block for ever and must not hang the harness.
func closeAll(cs []io.Closer) {
	done := make(chan struct{})
	go func() {
		var wg sync.WaitGroup
		for _, c := range cs {
			wg.Add(1)
			go func(c io.Closer) { defer wg.Done(); _ = c.Close() }(c)
		}
		wg.Wait()
		close(done)
	}()
	select {
	case <-done:
	case <-time.After(time.Second):
	}
}
