// Package udpl holds the checks for the UDP listener: C11 (dispatch) and C12
// (socket lifetime), the latter under the controlled scheduler over the
// yield-instrumented udp/conn.go and packetio/buffer.go.
package udpl

import (
	"errors"
	"fmt"
	"net"
	"os"
	"strconv"
	"strings"
	"sync"
	"testing"
	"time"

	"github.com/pion/transport/v3/deadline"
	"github.com/pion/transport/v3/packetio"
	"github.com/pion/transport/v3/udp"
	"pgregory.net/rapid"

	"verifharness/ev"
	"verifharness/sched"
)

func install(s *sched.Session) {
	udp.VerifSetHooks(&udp.VerifHooks{Yield: s.Yield, Spawn: s.Spawn, Adopt: s.Adopt, Retire: s.Retire})
	packetio.VerifSetHooks(&packetio.VerifHooks{Yield: s.Yield, Spawn: s.Spawn, Adopt: s.Adopt, Retire: s.Retire})
	deadline.VerifSetHooks(&deadline.VerifHooks{Yield: s.Yield, Spawn: s.Spawn, Adopt: s.Adopt, Retire: s.Retire})
}

func uninstall() {
	udp.VerifSetHooks(nil)
	packetio.VerifSetHooks(nil)
	deadline.VerifSetHooks(nil)
}

var loop = net.IPv4(127, 0, 0, 1)

type c12Scenario struct {
	Accepted   int   // conns accepted during setup
	Unaccepted int   // conns left in the backlog
	LClose     int   // listener.Close calls (0..2)
	CClose     []int // per accepted conn: Close calls (0..2)
	Accept     int   // Accept tasks (0..2)
	Readers    []bool
	SendNew    bool // a datagram from a new remote arrives during the controlled phase
	SendOld    bool // a datagram from an accepted remote arrives during the controlled phase
	Batch      bool
	Inside     bool // the listener is created inside the session: its read loop and closer goroutine are tasks
	Gate       bool // with SendNew: the accept filter parks the read loop on the late datagram until a task releases it
	// QueuedWrite (batch mode): a datagram written on connection 0 during the setup is still in
	// the write batch when the closes run: 1 = an ordinary one, 2 = one the kernel will refuse
	// (70000 bytes), so that the final flush inside the socket's Close fails
	QueuedWrite int
	// Backlog 0 = the default (128); 1 or 2: un-accepted remotes beyond it overflow, their
	// connection requests are discarded
	Backlog int
}

func (sc c12Scenario) String() string {
	return fmt.Sprintf("accepted=%d unaccepted=%d lclose=%d cclose=%v accept=%d readers=%v sendNew=%v sendOld=%v batch=%v inside=%v gate=%v queuedWrite=%d",
		sc.Accepted, sc.Unaccepted, sc.LClose, sc.CClose, sc.Accept, sc.Readers, sc.SendNew, sc.SendOld, sc.Batch, sc.Inside, sc.Gate, sc.QueuedWrite) + fmt.Sprintf(" backlog=%d", sc.Backlog)
}

func genC12(t *rapid.T) c12Scenario {
	sc := c12Scenario{
		Accepted:   rapid.IntRange(0, 3).Draw(t, "accepted"),
		Unaccepted: rapid.IntRange(0, 2).Draw(t, "unaccepted"),
		LClose:     rapid.SampledFrom([]int{0, 1, 1, 1, 2}).Draw(t, "lclose"),
		Accept:     rapid.SampledFrom([]int{0, 1, 1, 2}).Draw(t, "accept"),
		SendNew:    rapid.IntRange(0, 3).Draw(t, "sendNew") == 0,
		SendOld:    rapid.IntRange(0, 3).Draw(t, "sendOld") == 0,
		Batch:      rapid.IntRange(0, 5).Draw(t, "batch") == 0,
		Inside:     rapid.IntRange(0, 5).Draw(t, "inside") == 3,
		Gate:       rapid.Bool().Draw(t, "gate"),
	}
	if rapid.IntRange(0, 3).Draw(t, "gateSend") == 2 {
		sc.SendNew, sc.Gate = true, true // the window "first datagram inside the accept filter while Close runs"
	}
	for i := 0; i < sc.Accepted; i++ {
		sc.CClose = append(sc.CClose, rapid.SampledFrom([]int{0, 1, 1, 2}).Draw(t, "cclose"))
		sc.Readers = append(sc.Readers, rapid.IntRange(0, 2).Draw(t, "reader") == 0)
	}
	if sc.Accepted > 0 && rapid.IntRange(0, 7).Draw(t, "reclose") == 0 {
		// connection 0 is closed twice while its remote sends again and the new connection is
		// accepted: "Close is idempotent" - the second Close must not touch the successor
		sc.CClose[0], sc.SendOld = 2, true
		if sc.Accept == 0 {
			sc.Accept = 1
		}
	}
	if sc.Accepted > 0 && rapid.IntRange(0, 5).Draw(t, "sendIntoClose") == 0 {
		// the remote of connection 0 sends while the one Close of that connection runs, and
		// nothing else competes for the schedule: a successor created inside the window
		// between "marked closed" and "taken out of the table" must stay reachable
		sc.Accepted, sc.Unaccepted = 1, 0
		sc.CClose, sc.Readers = []int{1}, sc.Readers[:1]
		sc.SendOld, sc.SendNew, sc.Gate, sc.Accept = true, false, false, 1
		sc.LClose = rapid.SampledFrom([]int{0, 0, 1}).Draw(t, "lcloseFew")
	}
	if rapid.IntRange(0, 3).Draw(t, "smallBacklog") == 0 {
		sc.Backlog = rapid.IntRange(1, 2).Draw(t, "backlog")
		sc.Unaccepted = rapid.IntRange(0, 4).Draw(t, "unacceptedMany")
	}
	if sc.Batch && sc.Accepted > 0 {
		sc.QueuedWrite = rapid.IntRange(0, 2).Draw(t, "queuedWrite")
		if sc.QueuedWrite == 2 {
			// a failing flush also discards the rest of the batch, so nothing can be said about
			// later datagrams: drive this one to "everything closed" and look at the socket only
			sc.Accept, sc.SendNew, sc.SendOld, sc.Gate = 0, false, false, false
			if sc.LClose == 0 {
				sc.LClose = 1
			}
			for i := range sc.CClose {
				if sc.CClose[i] == 0 {
					sc.CClose[i] = 1
				}
			}
		}
	}
	return sc
}

// portHeldByUs reports whether a UDP socket of THIS process is bound to the
// port (looked up in /proc/net/udp and /proc/self/fd). A failed bind alone does
// not say that: once our socket is closed the kernel may hand the ephemeral
// port to any other process (other shards of this check run in parallel).
func portHeldByUs(port int) bool {
	inodes := map[string]bool{}
	for _, f := range []string{"/proc/net/udp", "/proc/net/udp6"} {
		b, err := os.ReadFile(f)
		if err != nil {
			continue
		}
		for _, line := range strings.Split(string(b), "\n")[1:] {
			fs := strings.Fields(line)
			if len(fs) < 10 {
				continue
			}
			k := strings.LastIndex(fs[1], ":")
			if k < 0 {
				continue
			}
			if p, err := strconv.ParseInt(fs[1][k+1:], 16, 32); err == nil && int(p) == port {
				inodes[fs[9]] = true
			}
		}
	}
	if len(inodes) == 0 {
		return false
	}
	ents, err := os.ReadDir("/proc/self/fd")
	if err != nil {
		return true // cannot tell: keep the stricter reading
	}
	for _, e := range ents {
		if l, err := os.Readlink("/proc/self/fd/" + e.Name()); err == nil && strings.HasPrefix(l, "socket:[") {
			if inodes[strings.TrimSuffix(strings.TrimPrefix(l, "socket:["), "]")] {
				return true
			}
		}
	}
	return false
}

// udpGoroutines returns the ids of the goroutines that currently have a frame
// in package udp (taken at the start of a case: leftovers of earlier, failed
// or discarded cases must not be charged to this one).
func udpGoroutines() map[int64]bool {
	r := map[int64]bool{}
	for _, g := range sched.Snapshot() {
		for _, f := range g.Frames {
			if strings.HasPrefix(f, "github.com/pion/transport/v3/udp.") {
				r[g.ID] = true
				break
			}
		}
	}
	return r
}

func udpFrames(before map[int64]bool) []string {
	var r []string
	for _, g := range sched.Snapshot() {
		if before[g.ID] {
			continue
		}
		for _, f := range g.Frames {
			if strings.HasPrefix(f, "github.com/pion/transport/v3/udp.") {
				r = append(r, fmt.Sprintf("goroutine %d [%s] %s", g.ID, g.State, f))
				break
			}
		}
	}
	return r
}

type acceptResult struct {
	conn net.Conn
	err  error
	done bool
}

// runC12 executes one scenario; returns "" or the violation.
func runC12(sc c12Scenario, ch sched.Chooser, c *ev.Case, logf func(string, ...any)) (msg string) {
	fail := func(f string, a ...any) {
		if msg == "" {
			msg = fmt.Sprintf(f, a...)
		}
	}
	before := udpGoroutines()
	if c != nil && sc.QueuedWrite > 0 {
		c.Label(fmt.Sprintf("queued-write/%d", sc.QueuedWrite))
	}
	lc := udp.ListenConfig{Backlog: sc.Backlog}
	if c != nil && sc.Backlog > 0 && sc.Unaccepted > sc.Backlog {
		c.Label("backlog-overflow")
	}
	gateEntered := make(chan struct{}, 4)
	gateRelease := make(chan struct{})
	gateAbort := make(chan struct{})
	if sc.Gate && sc.SendNew {
		lc.AcceptFilter = func(b []byte) bool {
			if string(b) == "late-new" {
				gateEntered <- struct{}{}
				<-gateRelease
			}
			return true
		}
	}
	if sc.Batch {
		lc.Batch = udp.BatchIOConfig{Enable: true, ReadBatchSize: 4, WriteBatchSize: 1, WriteBatchInterval: time.Millisecond}
		if sc.QueuedWrite > 0 {
			// writes stay in the batch for 400 ms unless eight of them accumulate
			lc.Batch = udp.BatchIOConfig{Enable: true, ReadBatchSize: 4, WriteBatchSize: 8, WriteBatchInterval: 400 * time.Millisecond}
		}
	}
	var ln net.Listener
	var laddr *net.UDPAddr
	var remotes []*net.UDPConn
	var rmu sync.Mutex
	newRemote := func() *net.UDPConn {
		r, err := net.DialUDP("udp", nil, laddr)
		if err != nil {
			panic(err)
		}
		rmu.Lock()
		remotes = append(remotes, r)
		rmu.Unlock()
		return r
	}
	var cleanup []func()
	defer func() {
		for _, f := range cleanup {
			f()
		}
		rmu.Lock()
		for _, r := range remotes {
			_ = r.Close()
		}
		rmu.Unlock()
	}()

	// ---- setup: free running, or (sc.Inside) as the first task of the session ---------
	var accepted []net.Conn
	var accRemote []*net.UDPConn
	setup := func() string {
		var err error
		ln, err = lc.Listen("udp", &net.UDPAddr{IP: loop, Port: 0})
		if err != nil {
			return "VERIF-INFRA: listen: " + err.Error()
		}
		laddr = ln.Addr().(*net.UDPAddr)
		for i := 0; i < sc.Accepted; i++ {
			r := newRemote()
			if _, err := r.Write([]byte(fmt.Sprintf("hello-%d", i))); err != nil {
				return "VERIF-INFRA: " + err.Error()
			}
			cn, err := ln.Accept()
			if err != nil {
				return "VERIF-INFRA: setup accept: " + err.Error()
			}
			buf := make([]byte, 64)
			if _, err := cn.Read(buf); err != nil {
				return "VERIF-INFRA: setup read: " + err.Error()
			}
			accepted = append(accepted, cn)
			accRemote = append(accRemote, r)
		}
		if sc.QueuedWrite > 0 {
			p := []byte("queued")
			if sc.QueuedWrite == 2 {
				p = make([]byte, 70000)
			}
			if _, err := accepted[0].Write(p); err != nil {
				return "VERIF-INFRA: queued write: " + err.Error()
			}
		}
		for i := 0; i < sc.Unaccepted; i++ {
			r := newRemote()
			_, _ = r.Write([]byte(fmt.Sprintf("pending-%d", i)))
		}
		if sc.Unaccepted > 0 {
			if sc.Accepted > 0 {
				// marker through the single-threaded read loop: the pending ones are dispatched
				_, _ = accRemote[0].Write([]byte("marker"))
				buf := make([]byte, 64)
				_ = accepted[0].SetReadDeadline(time.Now().Add(3 * time.Second))
				if _, err := accepted[0].Read(buf); err != nil {
					return "VERIF-INFRA: marker: " + err.Error()
				}
				_ = accepted[0].SetReadDeadline(time.Time{})
			} else {
				time.Sleep(2 * time.Millisecond)
			}
		}
		return ""
	}
	if !sc.Inside {
		if m := setup(); m != "" {
			return m
		}
	}

	// ---- controlled phase -------------------------------------------------------
	s := sched.New()
	s.QuiesceGap = 1500 * time.Microsecond
	s.MaxSteps = 6000
	install(s)
	sessionOver := false
	endSession := func() {
		if sessionOver {
			return
		}
		sessionOver = true
		s.Abort()
	}
	ready := make(chan struct{})
	setupMsg := ""
	if sc.Inside {
		s.Go("setup", func() {
			setupMsg = setup()
			close(ready)
		})
	} else {
		close(ready)
	}
	// every scenario task starts only when the setup is complete
	wait := func(f func()) func() {
		return func() {
			<-ready
			if setupMsg != "" {
				return
			}
			f()
		}
	}
	var mu sync.Mutex
	lcloseDone := 0
	var lcloseErrs []error
	ccloseDone := make([]int, sc.Accepted)
	accRes := make([]*acceptResult, sc.Accept)
	readRes := make([]*acceptResult, sc.Accepted)
	// "closed once the listener and every accepted connection have been closed": at the moment
	// a Close returns as the last one (everybody else's Close has returned, no Accept is
	// around that could still hold a connection), the port must be free - not a little later
	releasedChecked := false
	checkReleased := func(who string) {
		mu.Lock()
		ok := !releasedChecked && sc.Accept == 0 && lcloseDone >= 1
		for i := range ccloseDone {
			ok = ok && ccloseDone[i] >= 1
		}
		if ok {
			releasedChecked = true
		}
		mu.Unlock()
		if !ok {
			return
		}
		if c != nil {
			c.Label("released-at-last-close")
		}
		pc, err := net.ListenUDP("udp", laddr)
		if err != nil {
			if !portHeldByUs(laddr.Port) {
				if c != nil {
					c.Label("port-taken-by-another-process")
				}
				return
			}
			fail("C12: %s returned as the last Close (the listener and all %d accepted connections are closed), but the listener's socket is still open at that moment (bind: %v)", who, len(ccloseDone), err)
			return
		}
		_ = pc.Close()
	}
	var lcloseTasks []*sched.Task
	for k := 0; k < sc.LClose; k++ {
		lcloseTasks = append(lcloseTasks, s.Go(fmt.Sprintf("lclose%d", k), wait(func() {
			err := ln.Close()
			mu.Lock()
			lcloseDone++
			lcloseErrs = append(lcloseErrs, err)
			mu.Unlock()
			checkReleased("the listener's Close")
		})))
	}
	for i, n := range sc.CClose {
		i, n := i, n
		for k := 0; k < n; k++ {
			s.Go(fmt.Sprintf("cclose%d.%d", i, k), wait(func() {
				_ = accepted[i].Close()
				mu.Lock()
				ccloseDone[i]++
				mu.Unlock()
				checkReleased(fmt.Sprintf("Close of connection %d", i))
			}))
		}
	}
	for k := 0; k < sc.Accept; k++ {
		k := k
		accRes[k] = &acceptResult{}
		s.Go(fmt.Sprintf("accept%d", k), wait(func() {
			cn, err := ln.Accept()
			mu.Lock()
			accRes[k].conn, accRes[k].err, accRes[k].done = cn, err, true
			mu.Unlock()
		}))
	}
	for i, rd := range sc.Readers {
		if !rd {
			continue
		}
		i := i
		readRes[i] = &acceptResult{}
		s.Go(fmt.Sprintf("read%d", i), wait(func() {
			buf := make([]byte, 64)
			_, err := accepted[i].Read(buf)
			mu.Lock()
			readRes[i].err, readRes[i].done = err, true
			mu.Unlock()
		}))
	}
	if sc.SendNew {
		s.Go("send-new", wait(func() { _, _ = newRemote().Write([]byte("late-new")) }))
		if sc.Gate {
			// releases the read loop parked inside the accept filter at a scheduled moment
			s.Go("gate-release", wait(func() {
				select {
				case <-gateEntered:
				case <-gateAbort:
					// the listener was closed before the datagram arrived: nothing is parked
					return
				}
				s.Yield("gate:release")
				close(gateRelease)
			}))
		}
	}
	if sc.SendOld && sc.Accepted > 0 {
		s.Go("send-old", wait(func() { _, _ = accRemote[0].Write([]byte("late-old")) }))
	}
	defer func() {
		endSession()
		close(gateAbort)
		if sc.Gate && sc.SendNew {
			select {
			case <-gateRelease:
			default:
				func() {
					defer func() { _ = recover() }()
					close(gateRelease)
				}()
			}
		}
		// an interrupted setup task goes on in pass-through mode: let it finish
		// so that everything it creates is closed below
		select {
		case <-ready:
		case <-time.After(3 * time.Second):
		}
		// release everything the scenario left open -- from helper goroutines:
		// on a broken tree a Close may block for ever
		var toClose []interface{ Close() error }
		if ln != nil {
			toClose = append(toClose, ln)
		}
		for _, cn := range accepted {
			toClose = append(toClose, cn)
		}
		mu.Lock()
		for _, a := range accRes {
			if a != nil && a.conn != nil {
				toClose = append(toClose, a.conn)
			}
		}
		mu.Unlock()
		released := make(chan struct{})
		go func() {
			var wg sync.WaitGroup
			for _, x := range toClose {
				wg.Add(1)
				go func(x interface{ Close() error }) { defer wg.Done(); _ = x.Close() }(x)
			}
			wg.Wait()
			close(released)
		}()
		select {
		case <-released:
		case <-time.After(time.Second):
			if c != nil {
				c.Count("cleanup_close_blocked", 1)
			}
		}
		if left := s.Drain(2 * time.Second); left > 0 && c != nil {
			c.Count("leaked_goroutines", int64(left))
		}
		uninstall()
	}()

	s.Run(ch)
	if s.Discarded {
		if c != nil {
			c.Label("discarded/step-limit")
		}
		return ""
	}
	logf("terminal state:\n%s", s.Describe())
	for _, t := range s.Tasks() {
		if p := t.Panicked(); p != nil {
			fail("C12: task %s panicked: %v", t.Name, p)
			return
		}
	}
	select {
	case <-ready:
	default:
		return "VERIF-INFRA: the setup task did not complete\n" + s.Describe()
	}
	if setupMsg != "" {
		return setupMsg
	}
	if sc.Inside && c != nil {
		c.Label("listener-goroutines-as-tasks")
	}
	blocked := map[string]*sched.Task{}
	for _, t := range s.BlockedTasks() {
		blocked[t.Name] = t
	}
	mu.Lock()
	listenerClosed := lcloseDone > 0
	mu.Unlock()
	// 1. Close never stays blocked
	for name, t := range blocked {
		if strings.HasPrefix(name, "lclose") || strings.HasPrefix(name, "cclose") {
			st, fr := t.WaitInfo()
			fail("C12: %s stays blocked in [%s] at %s\n%s", name, st, fr, s.Describe())
			return
		}
	}
	for _, e := range lcloseErrs {
		if e != nil {
			fail("C12: listener Close returned %v", e)
			return
		}
	}
	// 2. Accept: fails once the listener is closed, or returned a connection
	live := map[net.Conn]int{} // accepted and not closed -> index of its remote (-1 unknown)
	for i, cn := range accepted {
		if sc.CClose[i] == 0 {
			live[cn] = i
		}
	}
	mu.Lock()
	for k, a := range accRes {
		name := fmt.Sprintf("accept%d", k)
		if !a.done {
			if listenerClosed {
				mu.Unlock()
				fail("C12: %s is still blocked although the listener's Close has returned\n%s", name, s.Describe())
				return
			}
			continue
		}
		if a.err == nil && a.conn != nil {
			live[a.conn] = -1
			if c != nil {
				c.Label("accept/returned-conn")
			}
		} else if c != nil {
			c.Label("accept/failed")
		}
	}
	// 3. reads of closed conns returned
	for i, r := range readRes {
		if r == nil {
			continue
		}
		if !r.done && sc.CClose[i] > 0 {
			mu.Unlock()
			fail("C12: Read on connection %d is still blocked although the connection's Close has returned\n%s", i, s.Describe())
			return
		}
	}
	mu.Unlock()
	if c != nil {
		c.Count("schedules", 1)
		c.Count("steps", int64(s.Steps()))
	}
	// ---- socket liveness (real I/O; the session is over) -----------------------------
	endSession()
	if listenerClosed && len(live) == 0 {
		if c != nil {
			c.Label("expect/socket-released")
		}
		// the shared socket must be closed: port reusable, no goroutine of the package left
		// every Close has returned: the socket is closed now, not at some later time
		if pc, err := net.ListenUDP("udp", laddr); err != nil {
			if portHeldByUs(laddr.Port) {
				fail("C12: the listener and every accepted connection are closed and every Close has returned, but the listener's socket is still open (bind: %v; package goroutines: %v)\n%s", err, udpFrames(before), s.Describe())
				return
			}
			if c != nil {
				c.Label("port-taken-by-another-process")
			}
		} else {
			_ = pc.Close()
		}
		deadline := time.Now().Add(3 * time.Second)
		for {
			pc, err := net.ListenUDP("udp", laddr)
			if err == nil {
				_ = pc.Close()
				if fr := udpFrames(before); len(fr) == 0 {
					break
				} else if time.Now().After(deadline) {
					fail("C12: the listener and every accepted connection are closed, but goroutines of the package are still running: %v\n%s", fr, s.Describe())
					return
				}
			} else if !portHeldByUs(laddr.Port) {
				// some other process has been given the port meanwhile: the socket is released
				if fr := udpFrames(before); len(fr) == 0 {
					break
				} else if time.Now().After(deadline) {
					fail("C12: the listener and every accepted connection are closed, but goroutines of the package are still running: %v\n%s", fr, s.Describe())
					return
				}
			} else if time.Now().After(deadline) {
				fail("C12: the listener and every accepted connection are closed, but the port cannot be bound again: %v (package goroutines: %v)\n%s", err, udpFrames(before), s.Describe())
				return
			}
			time.Sleep(200 * time.Microsecond)
		}
	} else {
		if c != nil {
			c.Label("expect/socket-alive")
		}
		// never earlier: every live accepted connection still sends and receives
		for cn, ri := range live {
			remAddr := cn.RemoteAddr().(*net.UDPAddr)
			var rem *net.UDPConn
			for _, r := range remotes {
				if r.LocalAddr().(*net.UDPAddr).Port == remAddr.Port {
					rem = r
				}
			}
			if rem == nil {
				continue
			}
			pendingReader := false
			if ri >= 0 && readRes[ri] != nil {
				mu.Lock()
				pendingReader = !readRes[ri].done
				mu.Unlock()
			}
			if _, err := cn.Write([]byte("ping")); err != nil {
				fail("C12: an accepted, unclosed connection (remote %s, setup index %d) can no longer send: %v; listener closed=%v\n%s", remAddr, ri, err, listenerClosed, s.Describe())
				return
			}
			buf := make([]byte, 64)
			_ = rem.SetReadDeadline(time.Now().Add(3 * time.Second))
			if _, err := rem.Read(buf); err != nil {
				fail("C12: datagram written on an accepted, unclosed connection never reached its remote: %v\n%s", err, s.Describe())
				return
			}
			if _, err := rem.Write([]byte("pong")); err != nil {
				fail("VERIF-INFRA: remote write: %v", err)
				return
			}
			if pendingReader {
				{
					// the scenario's own reader is parked in Read on this
					// connection: it is the one that receives the datagram
					deadline := time.Now().Add(3 * time.Second)
					for {
						mu.Lock()
						done, rerr := readRes[ri].done, readRes[ri].err
						mu.Unlock()
						if done {
							if rerr != nil {
								fail("C12: the pending Read on an accepted, unclosed connection failed: %v; listener closed=%v\n%s", rerr, listenerClosed, s.Describe())
								return
							}
							break
						}
						if time.Now().After(deadline) {
							fail("C12: the pending Read on an accepted, unclosed connection (remote %s) did not receive a fresh datagram; listener closed=%v\n%s", remAddr, listenerClosed, s.Describe())
							return
						}
						time.Sleep(100 * time.Microsecond)
					}
					continue
				}
			}
			_ = cn.SetReadDeadline(time.Now().Add(3 * time.Second))
			for {
				n, err := cn.Read(buf)
				if err != nil {
					fail("C12: an accepted, unclosed connection (remote %s) no longer receives: %v; listener closed=%v\n%s", remAddr, err, listenerClosed, s.Describe())
					return
				}
				if string(buf[:n]) == "pong" {
					break
				}
			}
			_ = cn.SetReadDeadline(time.Time{})
		}
		if !listenerClosed {
			// the listener still accepts
			pendingAccept := -1
			mu.Lock()
			for k, a := range accRes {
				if !a.done {
					pendingAccept = k
				}
			}
			mu.Unlock()
			r := newRemote()
			_, _ = r.Write([]byte("fresh"))
			if pendingAccept >= 0 {
				// an Accept of the scenario is parked: it takes the new connection
				deadline := time.Now().Add(3 * time.Second)
				for {
					mu.Lock()
					n := 0
					for _, a := range accRes {
						if !a.done {
							n++
						}
					}
					mu.Unlock()
					if n == 0 || time.Now().After(deadline) {
						break
					}
					// every pending Accept needs its own fresh remote
					time.Sleep(300 * time.Microsecond)
					rr := newRemote()
					_, _ = rr.Write([]byte("fresh"))
				}
				mu.Lock()
				for k, a := range accRes {
					if !a.done {
						fail("C12: accept%d stays blocked on the open listener although fresh remotes keep sending\n%s", k, s.Describe())
					} else if a.err != nil {
						fail("C12: accept%d on the open listener failed: %v", k, a.err)
					}
				}
				mu.Unlock()
				return msg
			}
			got := make(chan error, 1)
			go func() {
				cn, err := ln.Accept()
				if err == nil {
					_ = cn.Close()
				}
				got <- err
			}()
			select {
			case err := <-got:
				if err != nil && !errors.Is(err, udp.ErrClosedListener) {
					fail("C12: Accept on the open listener failed: %v", err)
				}
			case <-time.After(3 * time.Second):
				// backlog may hold older pending connections first; any accept suffices
				fail("C12: the open listener does not accept a fresh remote within 3 s\n%s", s.Describe())
			}
		}
	}
	return msg
}

// overlapWatcher labels the cases in which something ran inside the listener's Close.
type overlapWatcher struct {
	inner sched.Chooser
	c     *ev.Case
	trace *[]string
}

func (w *overlapWatcher) Pick(s *sched.Session, enabled []*sched.Task) *sched.Task {
	t := w.inner.Pick(s, enabled)
	if t == nil {
		return nil
	}
	*w.trace = append(*w.trace, t.Name+"@"+t.Label())
	inClose := false
	for _, x := range s.Tasks() {
		if strings.HasPrefix(x.Name, "lclose") && x.State() != sched.Finished && len(x.Passed()) > 1 {
			inClose = true
		}
	}
	if inClose && (strings.HasPrefix(t.Name, "accept") || strings.HasPrefix(t.Name, "cclose")) {
		w.c.Label("overlap/" + strings.TrimRight(t.Name, "0123456789."))
		w.c.NonTrivial()
	}
	return t
}

const ruleC12 = "setup on a real loopback socket (0..3 accepted and 0..2 un-accepted connections created by real datagrams, optional batch mode, backlog 128 or 1..2 with up to 4 un-accepted remotes so that connection requests overflow, there optionally with a datagram - an ordinary one or one the kernel will refuse - still waiting in the write batch when the closes run), then a controlled phase over the yield-instrumented udp/conn.go and packetio/buffer.go: tasks listener.Close (0..2 calls), conn.Close (0..2 calls per connection), Accept (0..2), conn.Read, datagrams from a new and from a known remote, in a rapid-drawn schedule; the listener's own read-loop and closer goroutines run free and are covered by the terminal-quiescence rule (two snapshots 1.5 ms apart with every goroutine parked); oracle: no Close stays blocked, Close returns nil, Accept fails once the listener is closed or its connection counts as accepted, reads of closed connections return; then, with real I/O: if the listener and all accepted connections are closed the port can be bound again - in scenarios without Accept tasks already at the moment the last Close returns - and no goroutine of the package is left (within 3 s), otherwise every accepted unclosed connection still sends to and receives from its remote and an open listener still accepts; non-trivial = an Accept or a connection Close was scheduled inside the listener's Close; distinct by hash of scenario + step trace"

func TestC12Schedules(t *testing.T) {
	r := ev.New("C12", "schedules", ruleC12)
	r.Essential = []string{"overlap/accept", "overlap/cclose", "expect/socket-released", "expect/socket-alive", "accept/returned-conn", "accept/failed"}
	r.MinForEssential = 300
	r.Assume("real loopback UDP sockets; wake-ups by the netpoller are not controlled (terminal quiescence rule); liveness waits of 3 s are backed by goroutine dumps")
	r.Check(t, func(t *rapid.T, c *ev.Case) {
		sc := genC12(t)
		rc := sched.NewRapidChooser(t)
		c.Set("scenario", sc.String())
		c.Label("strategy/" + sched.StrategyNames[rc.Strategy])
		t.Logf("scenario: %s strategy=%s", sc, sched.StrategyNames[rc.Strategy])
		var trace []string
		msg := runC12(sc, &overlapWatcher{inner: rc, c: c, trace: &trace}, c, t.Logf)
		for _, s := range trace {
			c.Op("%s", s)
		}
		if strings.HasPrefix(msg, "VERIF-INFRA") {
			c.Skip(t, "infra")
		}
		if msg != "" {
			t.Fatalf("%s", msg)
		}
	})
}
