package udpl

import (
	"strings"
	"testing"
	"time"

	"verifharness/sched"
)

// acceptThenClose is the shrunk schedule of the Accept/Close race (C12,
// fixed by 6d34e19): Accept takes the pending connection out of the
// backlog, then the listener's Close runs to completion, then Accept goes on.
type acceptThenClose struct{}

func (acceptThenClose) Pick(s *sched.Session, enabled []*sched.Task) *sched.Task {
	for _, t := range enabled {
		if strings.HasPrefix(t.Name, "accept") {
			took := false
			for _, l := range t.Passed() {
				if strings.HasSuffix(l, ":select") {
					took = true
				}
			}
			if !took {
				return t
			}
		}
	}
	for _, t := range enabled {
		if strings.HasPrefix(t.Name, "lclose") {
			return t
		}
	}
	return enabled[0]
}

func TestRegressC12_AcceptVsClose(t *testing.T) {
	for round := 0; round < 5; round++ {
		sc := c12Scenario{Unaccepted: 1, LClose: 1, Accept: 1}
		if msg := runC12(sc, acceptThenClose{}, nil, func(string, ...any) {}); msg != "" && !strings.HasPrefix(msg, "VERIF-INFRA") {
			t.Fatalf("%s", msg)
		}
		sc = c12Scenario{Accepted: 1, Unaccepted: 1, LClose: 1, Accept: 1, CClose: []int{1}, Readers: []bool{false}}
		if msg := runC12(sc, acceptThenClose{}, nil, func(string, ...any) {}); msg != "" && !strings.HasPrefix(msg, "VERIF-INFRA") {
			t.Fatalf("%s", msg)
		}
	}
}

// closeVsLateConn is the shrunk schedule of C12-conn-close-stale-last-user:
// a parked Accept, a connection Close that has just counted "no other
// connection", then a datagram of a new remote (accepted by the parked
// Accept), then the listener's Close, then the connection Close goes on.
type closeVsLateConn struct{ slept bool }

func passedKind(t *sched.Task, kind string) bool {
	for _, l := range t.Passed() {
		if strings.HasSuffix(l, ":"+kind) {
			return true
		}
	}
	return false
}

func (c *closeVsLateConn) Pick(s *sched.Session, enabled []*sched.Task) *sched.Task {
	byName := map[string]*sched.Task{}
	for _, t := range enabled {
		byName[t.Name] = t
	}
	if t := byName["accept0"]; t != nil && !passedKind(t, "select") {
		return t
	}
	if t := byName["cclose0.0"]; t != nil && !passedKind(t, "unlock") {
		return t
	}
	if t := byName["send-new"]; t != nil {
		return t
	}
	if !c.slept {
		c.slept = true
		time.Sleep(5 * time.Millisecond) // the free-running read loop queues the new connection, the parked Accept takes it
	}
	if t := byName["lclose0"]; t != nil {
		return t
	}
	return enabled[0]
}

func TestRegressC12_CloseVsLateConn(t *testing.T) {
	for round := 0; round < 5; round++ {
		sc := c12Scenario{Accepted: 1, LClose: 1, Accept: 1, CClose: []int{1}, Readers: []bool{false}, SendNew: true}
		if msg := runC12(sc, &closeVsLateConn{}, nil, func(string, ...any) {}); msg != "" && !strings.HasPrefix(msg, "VERIF-INFRA") {
			t.Fatalf("%s", msg)
		}
	}
}
