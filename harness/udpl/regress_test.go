package udpl

import (
	"strings"
	"testing"

	"verifharness/sched"
)

// acceptThenClose is the shrunk schedule of the Accept/Close race (C12,
// fixed by 6d34e19): Accept takes the pending connection out of the
// backlog, then the listener's Close runs to completion, then Accept goes on.
type acceptThenClose struct{}

func (acceptThenClose) Pick(s *sched.Session, enabled []*sched.Task) *sched.Task {
	for _, t := range enabled {
		if strings.HasPrefix(t.Name, "accept") {
			took := false
			for _, l := range t.Passed() {
				if strings.HasSuffix(l, ":select") {
					took = true
				}
			}
			if !took {
				return t
			}
		}
	}
	for _, t := range enabled {
		if strings.HasPrefix(t.Name, "lclose") {
			return t
		}
	}
	return enabled[0]
}

func TestRegressC12_AcceptVsClose(t *testing.T) {
	for round := 0; round < 5; round++ {
		sc := c12Scenario{Unaccepted: 1, LClose: 1, Accept: 1}
		if msg := runC12(sc, acceptThenClose{}, nil, func(string, ...any) {}); msg != "" && !strings.HasPrefix(msg, "VERIF-INFRA") {
			t.Fatalf("%s", msg)
		}
		sc = c12Scenario{Accepted: 1, Unaccepted: 1, LClose: 1, Accept: 1, CClose: []int{1}, Readers: []bool{false}}
		if msg := runC12(sc, acceptThenClose{}, nil, func(string, ...any) {}); msg != "" && !strings.HasPrefix(msg, "VERIF-INFRA") {
			t.Fatalf("%s", msg)
		}
	}
}
