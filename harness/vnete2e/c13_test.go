package vnete2e

import (
	"fmt"
	"net"
	"sort"
	"strings"
	"testing"
	"time"

	"github.com/pion/transport/v3/vnet"
	"pgregory.net/rapid"

	"verifharness/ev"
)

func eth0IPs(t *rapid.T, n *vnet.Net) []string {
	ifc, err := n.InterfaceByName("eth0")
	if err != nil {
		t.Fatalf("InterfaceByName(eth0): %v", err)
	}
	addrs, _ := ifc.Addrs()
	var r []string
	for _, a := range addrs {
		if ipn, ok := a.(*net.IPNet); ok {
			r = append(r, ipn.IP.String())
		}
	}
	return r
}

const ruleC13Router = "rapid-drawn sequence of 1..40 attachments (hosts and child routers) to one router with CIDR /24, /16 or /28: automatic address, one static address (inside the subnet, inside the automatic range .1..30, or outside the subnet), two static addresses; statics are distinct from every address in use; a long variant attaches 250..260 automatic NICs; after every attachment: an automatically assigned address is held by no other NIC, every address on an interface lies inside the subnet or the call returned an error, at most 254 automatic addresses are handed out and the next attempt fails; finally a probe datagram to every address reaches the host that holds it; non-trivial = a static address inside the automatic range was followed by an automatic assignment, or the address space was exhausted; distinct by hash of the attachment list"

func TestC13RouterAddresses(t *testing.T) {
	r := ev.New("C13", "router-addresses", ruleC13Router)
	r.Essential = []string{"static-in-auto-range-then-auto", "exhaustion", "static/outside-subnet", "child-router"}
	r.MinForEssential = 400
	r.Check(t, func(t *rapid.T, c *ev.Case) {
		lf := quietLogger()
		type sub struct {
			cidr   string
			prefix string // first three octets
			inNet  func(net.IP) bool
		}
		var s sub
		switch rapid.IntRange(0, 5).Draw(t, "cidr") {
		case 0:
			s = sub{cidr: "192.168.5.16/28", prefix: "192.168.5."}
		case 1:
			s = sub{cidr: "10.9.0.0/16", prefix: "10.9.0."}
		default:
			s = sub{cidr: "10.1.2.0/24", prefix: "10.1.2."}
		}
		_, ipn, _ := net.ParseCIDR(s.cidr)
		c.Set("cidr", s.cidr)
		router, err := vnet.NewRouter(&vnet.RouterConfig{CIDR: s.cidr, LoggerFactory: lf})
		if err != nil {
			t.Fatal(err)
		}
		held := map[string]int{} // address -> attachment index
		type host struct {
			net   *vnet.Net
			ips   []string
			index int
		}
		var hosts []host
		long := rapid.IntRange(0, 24).Draw(t, "long") == 0
		n := rapid.IntRange(1, 40).Draw(t, "attachments")
		if long {
			n = rapid.IntRange(250, 260).Draw(t, "many")
			c.Label("long")
		}
		autos := 0
		staticInRangeSeen := false
		// long variant: a few static addresses at the edges of the automatic range first
		var edgeStatics []string
		if long {
			for _, last := range []int{254, 253, 1, 2, 128} {
				if rapid.IntRange(0, 2).Draw(t, "edge") == 0 {
					edgeStatics = append(edgeStatics, fmt.Sprintf("%s%d", s.prefix, last))
				}
			}
			n += len(edgeStatics)
			if len(edgeStatics) > 0 {
				c.Label("long/static-at-range-edge")
			}
		}
		for i := 0; i < n; i++ {
			kind := rapid.IntRange(0, 9).Draw(t, "kind")
			if long {
				kind = 0
			}
			var statics []string
			desc := "auto"
			pick := func(lo, hi int, third string) string {
				for tries := 0; tries < 50; tries++ {
					ip := fmt.Sprintf("%s%d", third, rapid.IntRange(lo, hi).Draw(t, "last"))
					if _, used := held[ip]; !used && !contains(statics, ip) {
						return ip
					}
				}
				return ""
			}
			switch {
			case long && i < len(edgeStatics):
				if ipn.Contains(net.ParseIP(edgeStatics[i])) {
					statics = []string{edgeStatics[i]}
					desc = "static-in-auto-range " + edgeStatics[i]
				}
			case kind < 4:
			case kind < 6: // static inside the automatic range
				if ip := pick(1, 30, s.prefix); ip != "" {
					statics = []string{ip}
					desc = "static-in-auto-range " + ip
				}
			case kind < 7: // static elsewhere in the subnet
				third := s.prefix
				lo, hi := 100, 250
				if strings.HasSuffix(s.cidr, "/28") {
					lo, hi = 17, 30
				}
				if strings.HasSuffix(s.cidr, "/16") && rapid.Bool().Draw(t, "third") {
					third = "10.9.7."
				}
				if ip := pick(lo, hi, third); ip != "" {
					statics = []string{ip}
					desc = "static " + ip
				}
			case kind < 8: // outside the subnet
				statics = []string{fmt.Sprintf("172.31.0.%d", rapid.IntRange(1, 200).Draw(t, "last"))}
				desc = "static-outside " + statics[0]
				c.Label("static/outside-subnet")
			default: // two statics
				a := pick(31, 99, s.prefix)
				statics = []string{a}
				b := pick(31, 99, s.prefix)
				if a != "" && b != "" {
					statics = []string{a, b}
					desc = "two-statics " + a + "," + b
				} else {
					statics = nil
				}
			}
			asRouter := !long && rapid.IntRange(0, 5).Draw(t, "router") == 0
			var attachErr error
			var ips []string
			var hn *vnet.Net
			if asRouter {
				c.Label("child-router")
				child, err := vnet.NewRouter(&vnet.RouterConfig{CIDR: fmt.Sprintf("172.20.%d.0/24", i), StaticIPs: statics, LoggerFactory: lf})
				if err != nil {
					t.Fatal(err)
				}
				attachErr = router.AddRouter(child)
				if attachErr == nil {
					// the child's parent-side addresses are exactly what the parent handed out
					ifc, _ := child.VerifIfc()
					ips = ifc
				}
				desc = "router " + desc
			} else {
				hn, _ = vnet.NewNet(&vnet.NetConfig{StaticIPs: statics})
				attachErr = router.AddNet(hn)
				if attachErr == nil {
					ips = eth0IPs(t, hn)
				}
				desc = "host " + desc
			}
			c.Op("%s -> %v err=%v", desc, ips, attachErr != nil)
			t.Logf("attachment %d: %s -> addresses %v err=%v", i, desc, ips, attachErr)
			if attachErr != nil {
				c.Label("attach-error")
				if len(statics) == 0 {
					// automatic assignment failed: legal only on exhaustion or when the
					// automatic address would fall outside the subnet (/28)
					// (on the /28 the automatic candidates .1...15 lie outside the
					// subnet and an error is the documented answer)
					wide := !strings.HasSuffix(s.cidr, "/28")
					if wide && len(held) < 254 {
						t.Fatalf("C13: automatic assignment failed (%v) after %d automatic addresses although the subnet %s has free addresses", attachErr, autos, s.cidr)
					}
					if len(held) >= 254 {
						c.Label("exhaustion")
						c.NonTrivial()
					}
				}
				continue
			}
			if len(statics) == 0 {
				autos++
				if len(ips) != 1 {
					t.Fatalf("C13: automatic assignment gave the NIC %d addresses: %v", len(ips), ips)
				}
				if autos > 254 {
					t.Fatalf("C13: automatic assignment #%d succeeded with %s; only 254 addresses exist, one was reused", autos, ips[0])
				}
				if staticInRangeSeen {
					c.Label("static-in-auto-range-then-auto")
					c.NonTrivial()
				}
			} else {
				sort.Strings(ips)
				want := append([]string(nil), statics...)
				sort.Strings(want)
				if fmt.Sprint(ips) != fmt.Sprint(want) {
					t.Fatalf("C13: NIC with static addresses %v ended up with %v", statics, ips)
				}
				for _, ip := range statics {
					if strings.HasPrefix(desc, "host static-in-auto-range") || strings.HasPrefix(desc, "router static-in-auto-range") {
						staticInRangeSeen = true
					}
					_ = ip
				}
			}
			for _, ip := range ips {
				if !ipn.Contains(net.ParseIP(ip)) {
					t.Fatalf("C13: address %s was put on an interface although it is outside the router's subnet %s and no error was reported", ip, s.cidr)
				}
				if j, dup := held[ip]; dup {
					how := "automatically assigned"
					if len(statics) > 0 {
						how = "(harness error) static"
					}
					t.Fatalf("C13: attachment %d was %s the address %s which attachment %d already holds", i, how, ip, j)
				}
				held[ip] = i
			}
			if hn != nil {
				hosts = append(hosts, host{hn, ips, i})
			}
		}
		// routing reaches the holder of every host address
		if len(hosts) > 0 && !long {
			prober, _ := vnet.NewNet(&vnet.NetConfig{})
			if err := router.AddNet(prober); err != nil {
				return // no address left for the prober: nothing to probe with
			}
			pIPs := eth0IPs(t, prober)
			if _, dup := held[pIPs[0]]; dup {
				t.Fatalf("C13: the probe host was automatically assigned %s which attachment %d already holds", pIPs[0], held[pIPs[0]])
			}
			if err := router.Start(); err != nil {
				t.Fatal(err)
			}
			defer router.Stop() //nolint:errcheck
			pc, err := prober.ListenUDP("udp", &net.UDPAddr{IP: net.ParseIP(pIPs[0]), Port: 4000})
			if err != nil {
				t.Fatal(err)
			}
			defer pc.Close() //nolint:errcheck
			type sock struct {
				conn interface {
					ReadFrom([]byte) (int, net.Addr, error)
					SetReadDeadline(time.Time) error
					Close() error
				}
				h int
			}
			var socks []sock
			for hi, h := range hosts {
				cn, err := h.net.ListenUDP("udp", &net.UDPAddr{IP: net.IPv4zero, Port: 4100})
				if err != nil {
					t.Fatalf("ListenUDP on host %d: %v", hi, err)
				}
				defer cn.Close() //nolint:errcheck
				socks = append(socks, sock{cn, hi})
			}
			for hi, h := range hosts {
				for _, ip := range h.ips {
					msg := fmt.Sprintf("probe-%d-%s", hi, ip)
					if _, err := pc.WriteTo([]byte(msg), &net.UDPAddr{IP: net.ParseIP(ip), Port: 4100}); err != nil {
						t.Fatalf("probe write: %v", err)
					}
					buf := make([]byte, 100)
					_ = socks[hi].conn.SetReadDeadline(time.Now().Add(3 * time.Second))
					nn, _, err := socks[hi].conn.ReadFrom(buf)
					if err != nil || string(buf[:nn]) != msg {
						t.Fatalf("C13: a datagram to %s did not reach the host that holds the address (attachment %d): got %q err=%v", ip, h.index, buf[:nn], err)
					}
					c.Count("probes", 1)
				}
			}
		}
	})
}

func contains(l []string, s string) bool {
	for _, x := range l {
		if x == s {
			return true
		}
	}
	return false
}

// ---- host bind table ---------------------------------------------------------

type bsock struct {
	ip     string // "0.0.0.0", "127.0.0.1" or an eth0 address
	port   int
	conn   vnet.UDPConnLike
	remote *net.UDPAddr
	id     int
}

const ruleC13Host = "rapid state machine over one host with 1..3 eth0 addresses (+loopback): ListenUDP / ListenPacket / DialUDP / Dial with IP from {each own IP, 0.0.0.0, nil, 127.0.0.1, a foreign IP} and port from {0, 3 fixed ports, 5000..5002}, Close, and probe datagrams (from a second host through the router, or over loopback) to drawn (IP, port) pairs; 1 in 40 cases first fills the whole 5000..5999 range with wildcard binds; model = bind table; oracle: a bind succeeds iff the IP belongs to the host and no open socket covers the IP and port (wildcard conflicts with every bind on the port), port 0 yields a port in 5000..5999 that is free for that IP or fails iff none is free, Close frees the address, a probe is received by exactly the open socket that covers its destination, or by nobody; fresh address structs per call; non-trivial = >=1 conflict refusal and >=1 rebind after close; distinct by hash of the step list"

func TestC13HostBinds(t *testing.T) {
	r := ev.New("C13", "host-binds", ruleC13Host)
	r.Essential = []string{"bind/refused-conflict", "bind/rebind-after-close", "bind/port0", "probe/delivered", "probe/nobody", "bind/foreign-ip", "range-prefilled"}
	r.MinForEssential = 600
	r.Check(t, func(t *rapid.T, c *ev.Case) {
		lf := quietLogger()
		router, err := vnet.NewRouter(&vnet.RouterConfig{CIDR: "10.0.0.0/24", LoggerFactory: lf})
		if err != nil {
			t.Fatal(err)
		}
		nIPs := rapid.IntRange(1, 3).Draw(t, "nips")
		var own []string
		for i := 0; i < nIPs; i++ {
			own = append(own, fmt.Sprintf("10.0.0.%d", 10+i))
		}
		host, _ := vnet.NewNet(&vnet.NetConfig{StaticIPs: own})
		prober, _ := vnet.NewNet(&vnet.NetConfig{StaticIPs: []string{"10.0.0.200"}})
		// A third of the hosts are used before they are attached to the router (an application
		// that opens a loopback or wildcard socket first): whatever the host learned about its
		// addresses then must not outlive the attachment.
		if rapid.IntRange(0, 2).Draw(t, "usedBeforeAttach") == 0 {
			c.Label("host/used-before-attach")
			for _, a := range []string{"127.0.0.1:0", "0.0.0.0:0", own[0] + ":4000"} {
				if cn, err := host.ListenPacket("udp", a); err == nil {
					_ = cn.Close()
				} else if a != own[0]+":4000" {
					t.Fatalf("C13: ListenPacket(%s) on a host that is not attached yet failed: %v", a, err)
				}
			}
		}
		if err = router.AddNet(host); err != nil {
			t.Fatal(err)
		}
		if err = router.AddNet(prober); err != nil {
			t.Fatal(err)
		}
		if err = router.Start(); err != nil {
			t.Fatal(err)
		}
		defer router.Stop() //nolint:errcheck
		c.Set("host_ips", fmt.Sprint(own))
		proberAddr := &net.UDPAddr{IP: net.ParseIP("10.0.0.200"), Port: 4000}
		pc, err := prober.ListenUDP("udp", &net.UDPAddr{IP: net.ParseIP("10.0.0.200"), Port: 4000})
		if err != nil {
			t.Fatal(err)
		}
		defer pc.Close() //nolint:errcheck

		var open []*bsock
		var closedSocks []*bsock
		nextID := 0
		closedOnce := map[string]bool{} // "ip:port" closed before
		covers := func(s *bsock, ip string, port int) bool {
			return s.port == port && (s.ip == "0.0.0.0" || s.ip == ip)
		}
		// conflict: would binding (ip,port) clash with an open socket?
		byPort := func() map[int][]*bsock {
			m := map[int][]*bsock{}
			for _, s := range open {
				m[s.port] = append(m[s.port], s)
			}
			return m
		}
		var index map[int][]*bsock
		indexLen := -1
		conflict := func(ip string, port int) bool {
			if indexLen != len(open) {
				index, indexLen = byPort(), len(open)
			}
			for _, s := range index[port] {
				if ip == "0.0.0.0" || s.ip == "0.0.0.0" || s.ip == ip {
					return true
				}
			}
			return false
		}
		belongs := func(ip string) bool {
			return ip == "0.0.0.0" || ip == "127.0.0.1" || contains(own, ip)
		}
		// the sentinel: a socket that is always open, used as a marker target
		sentinel, err := host.ListenUDP("udp", &net.UDPAddr{IP: net.ParseIP(own[0]), Port: 4999})
		if err != nil {
			t.Fatalf("C13: ListenUDP on %s:4999 failed (%v) although the IP belongs to the host and no socket is open on it yet", own[0], err)
		}
		defer sentinel.Close() //nolint:errcheck
		defer func() {
			for _, s := range open {
				_ = s.conn.Close()
			}
		}()

		bind := func(how, ip string, port int) {
			// ip == "" means a nil IP in the address struct
			modelIP := ip
			if ip == "" {
				modelIP = "0.0.0.0"
			}
			var conn vnet.UDPConnLike
			var err error
			var remote *net.UDPAddr
			mk := func() *net.UDPAddr {
				a := &net.UDPAddr{Port: port}
				if ip != "" {
					a.IP = net.ParseIP(ip)
					if rapid.Bool().Draw(t, "four") {
						a.IP = a.IP.To4() // the 4-byte form of the same address
						c.Label("ipform/4-byte")
					}
				}
				return a
			}
			switch how {
			case "ListenUDP":
				var uc interface{}
				uc, err = host.ListenUDP("udp", mk())
				if err == nil {
					conn = uc.(vnet.UDPConnLike)
				}
			case "ListenPacket":
				var pcn net.PacketConn
				pcn, err = host.ListenPacket("udp", fmt.Sprintf("%s:%d", modelIP, port))
				if err == nil {
					conn = pcn.(vnet.UDPConnLike)
				}
			case "Dial":
				// source address chosen by the stack: any own eth0 address, port 0
				remote = proberAddr
				var nc net.Conn
				nc, err = host.Dial("udp", proberAddr.String())
				if err == nil {
					conn = nc.(vnet.UDPConnLike)
					la := conn.LocalAddr().(*net.UDPAddr)
					if !contains(own, la.IP.String()) {
						t.Fatalf("C13: Dial bound the socket to %s, which is not an address of the host %v", la.IP, own)
					}
					modelIP, ip = la.IP.String(), la.IP.String()
					// the conflict rule is evaluated for the chosen address below (port 0 path)
				} else {
					modelIP, ip = own[0], own[0]
				}
				port = 0
				c.Label("bind/dial")
			case "DialUDP":
				remote = proberAddr
				var uc interface{}
				uc, err = host.DialUDP("udp", mk(), &net.UDPAddr{IP: proberAddr.IP, Port: proberAddr.Port})
				if err == nil {
					conn = uc.(vnet.UDPConnLike)
				}
			}
			wantOK := belongs(modelIP)
			expectErr := ""
			if !wantOK {
				expectErr = "the IP does not belong to the host"
				c.Label("bind/foreign-ip")
			}
			if wantOK && port != 0 && conflict(modelIP, port) {
				wantOK = false
				expectErr = "an open socket already covers that IP and port"
				c.Label("bind/refused-conflict")
			}
			if port == 0 && wantOK {
				c.Label("bind/port0")
				free := false
				for p := 5000; p <= 5999; p++ {
					if !conflict(modelIP, p) {
						free = true
						break
					}
				}
				if !free {
					wantOK = false
					expectErr = "no port in 5000-5999 is free for that IP"
					c.Label("bind/port0-exhausted")
				}
			}
			c.Op("%s %s:%d -> %v", how, ip, port, err == nil)
			t.Logf("%s(%q, %d) -> err=%v (model: ok=%v %s)", how, ip, port, err, wantOK, expectErr)
			if err == nil && !wantOK {
				t.Fatalf("C13: %s on %s:%d succeeded although %s", how, modelIP, port, expectErr)
			}
			if err != nil && wantOK {
				t.Fatalf("C13: %s on %s:%d failed (%v) although the IP belongs to the host and no open socket covers the address", how, modelIP, port, err)
			}
			if err != nil {
				return
			}
			la := conn.LocalAddr().(*net.UDPAddr)
			gotPort := la.Port
			if port != 0 && gotPort != port {
				t.Fatalf("C13: bound to port %d, asked for %d", gotPort, port)
			}
			if port == 0 {
				if gotPort < 5000 || gotPort > 5999 {
					t.Fatalf("C13: port 0 picked port %d, outside 5000-5999", gotPort)
				}
				if conflict(modelIP, gotPort) {
					t.Fatalf("C13: port 0 picked port %d which an open socket already covers for %s", gotPort, modelIP)
				}
			}
			nextID++
			s := &bsock{ip: modelIP, port: gotPort, conn: conn, remote: remote, id: nextID}
			if closedOnce[fmt.Sprintf("%s:%d", modelIP, gotPort)] {
				c.Label("bind/rebind-after-close")
			}
			open = append(open, s)
			indexLen = -1
		}

		// drain returns what every open socket has received
		drain := func(probeSrc string) map[int][]string {
			res := map[int][]string{}
			for _, s := range open {
				for s.conn.VerifQueued() > 0 {
					buf := make([]byte, 200)
					wait := 5 * time.Second
					if s.remote != nil && s.remote.String() != probeSrc {
						// a connected socket silently discards a datagram of another source and
						// keeps waiting: only then a short deadline (the read is expected to time out)
						wait = 3 * time.Millisecond
					}
					_ = s.conn.SetReadDeadline(time.Now().Add(wait))
					n, _, err := s.conn.ReadFrom(buf)
					if err != nil {
						break
					}
					res[s.id] = append(res[s.id], string(buf[:n]))
				}
			}
			return res
		}
		seq := 0
		probe := func(ip string, port int) {
			seq++
			msg := fmt.Sprintf("probe-%d", seq)
			var target *bsock
			for _, s := range open {
				if covers(s, ip, port) {
					if target != nil {
						t.Fatalf("harness error: two open sockets cover %s:%d", ip, port)
					}
					target = s
				}
			}
			if ip == "127.0.0.1" {
				// over loopback, from the sentinel socket of the same host (synchronous)
				if _, err := sentinel.WriteTo([]byte(msg), &net.UDPAddr{IP: net.ParseIP(ip), Port: port}); err != nil {
					t.Fatalf("loopback probe: %v", err)
				}
				if target != nil && target.remote != nil {
					target = nil // a connected socket discards datagrams from other sources
					c.Label("probe/connected-discard")
					// the discarded datagram still sits in its queue: read it away
				}
			} else {
				pip := net.ParseIP(ip)
				if rapid.Bool().Draw(t, "probeFour") {
					pip = pip.To4()
				}
				if _, err := pc.WriteTo([]byte(msg), &net.UDPAddr{IP: pip, Port: port}); err != nil {
					t.Fatalf("probe: %v", err)
				}
				// marker through the same router queue: when it arrives the probe has been handled
				if _, err := pc.WriteTo([]byte("marker"), &net.UDPAddr{IP: net.ParseIP(own[0]), Port: 4999}); err != nil {
					t.Fatalf("marker: %v", err)
				}
				buf := make([]byte, 100)
				_ = sentinel.SetReadDeadline(time.Now().Add(5 * time.Second))
				for {
					n, _, err := sentinel.ReadFrom(buf)
					if err != nil {
						// (a machine that stood still shows in the stall detector's VERIF-INFRA line,
						// which takes precedence in the driver)
						t.Fatalf("C13: a datagram sent to %s:4999 through the router was not handed to the open socket bound to that address within 5 s (%v)", own[0], err)
					}
					if string(buf[:n]) == "marker" {
						break
					}
					if ip == own[0] && port == 4999 && string(buf[:n]) == msg {
						continue // the probe was addressed to the sentinel itself
					}
				}
			}
			probeSrc := proberAddr.String()
			if ip == "127.0.0.1" {
				probeSrc = own[0] + ":4999" // the sentinel is bound to a specific address
			}
			got := drain(probeSrc)
			c.Op("probe %s:%d", ip, port)
			t.Logf("probe %s:%d -> received by %v (model: %v)", ip, port, got, target)
			if ip == own[0] && port == 4999 {
				return
			}
			for id, msgs := range got {
				for _, m := range msgs {
					if m != msg {
						t.Fatalf("C13: socket %d received %q, an old or foreign datagram", id, m)
					}
					if target == nil || id != target.id {
						who := "no open socket covers that address"
						if target != nil {
							who = fmt.Sprintf("socket %d (%s:%d) covers it", target.id, target.ip, target.port)
						}
						var rs *bsock
						for _, s := range open {
							if s.id == id {
								rs = s
							}
						}
						if rs != nil && rs.remote != nil && ip == "127.0.0.1" {
							continue // datagram queued on a connected socket, discarded by its ReadFrom
						}
						t.Fatalf("C13: the datagram to %s:%d was handed to socket %d (%s:%d) although %s", ip, port, id, rs.ip, rs.port, who)
					}
				}
			}
			if target != nil {
				c.Label("probe/delivered")
				if len(got[target.id]) != 1 {
					t.Fatalf("C13: the datagram to %s:%d was not handed to the open socket %s:%d that covers it (received %d)", ip, port, target.ip, target.port, len(got[target.id]))
				}
			} else {
				c.Label("probe/nobody")
			}
		}

		ports := []int{0, 3478, 4444, 5000, 5001, 5002, 9999}
		genIP := func() string {
			k := rapid.IntRange(0, 9).Draw(t, "ipk")
			switch {
			case k < 4:
				return own[rapid.IntRange(0, len(own)-1).Draw(t, "own")]
			case k < 6:
				return "0.0.0.0"
			case k < 7:
				return ""
			case k < 9:
				return "127.0.0.1"
			}
			return "10.0.0.99"
		}
		if rapid.IntRange(0, 59).Draw(t, "prefill") == 17 {
			c.Label("range-prefilled")
			for i := 0; i < 1000; i++ {
				bind("ListenUDP", "0.0.0.0", 0)
			}
			if len(open) != 1000 {
				t.Fatalf("C13: 1000 wildcard binds with port 0 produced %d sockets", len(open))
			}
		}
		steps := rapid.IntRange(1, 40).Draw(t, "steps")
		for i := 0; i < steps; i++ {
			switch op := rapid.IntRange(0, 99).Draw(t, "op"); {
			case op < 45:
				how := rapid.SampledFrom([]string{"ListenUDP", "ListenUDP", "ListenPacket", "DialUDP", "Dial"}).Draw(t, "how")
				ip := genIP()
				if how == "ListenPacket" && ip == "" {
					ip = "0.0.0.0"
				}
				bind(how, ip, rapid.SampledFrom(ports).Draw(t, "port"))
			case op < 50 && len(closedSocks) > 0:
				// closing an already closed socket again (a deferred Close after an explicit
				// one) must not disturb whoever holds the address now
				s := closedSocks[rapid.IntRange(0, len(closedSocks)-1).Draw(t, "again")]
				_ = s.conn.Close()
				c.Op("close-again %s:%d", s.ip, s.port)
				c.Label("close-again")
				t.Logf("close again %s:%d", s.ip, s.port)
			case op < 65 && len(open) > 0:
				k := rapid.IntRange(0, len(open)-1).Draw(t, "which")
				s := open[k]
				if err := s.conn.Close(); err != nil {
					t.Fatalf("C13: Close of %s:%d: %v", s.ip, s.port, err)
				}
				closedOnce[fmt.Sprintf("%s:%d", s.ip, s.port)] = true
				closedSocks = append(closedSocks, s)
				open = append(open[:k:k], open[k+1:]...)
				indexLen = -1
				c.Op("close %s:%d", s.ip, s.port)
				t.Logf("close %s:%d", s.ip, s.port)
			default:
				ip := genIP()
				if ip == "" || ip == "0.0.0.0" || ip == "10.0.0.99" {
					ip = own[0]
				}
				port := rapid.SampledFrom(ports[1:]).Draw(t, "pport")
				if len(open) > 0 && rapid.Bool().Draw(t, "toOpen") {
					s := open[rapid.IntRange(0, len(open)-1).Draw(t, "ps")]
					port = s.port
					if s.ip != "0.0.0.0" && rapid.Bool().Draw(t, "sameip") {
						ip = s.ip
					}
				}
				probe(ip, port)
			}
		}
		if c.Has("bind/refused-conflict") && c.Has("bind/rebind-after-close") {
			c.NonTrivial()
		}
	})
}
