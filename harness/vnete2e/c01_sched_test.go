//go:build verifsched

package vnete2e

import (
	"bytes"
	"fmt"
	"net"
	"strings"
	"testing"
	"time"

	"github.com/pion/transport/v3/vnet"
	"pgregory.net/rapid"

	"verifharness/ev"
	"verifharness/sched"
)

const ruleC01Sched = "controlled-schedule variant: topology and established flows as in the sequential phase of C01 (drawn routers, NATs, hosts, sockets; flows learned by sequential sends checked against the model); then the routers are stopped and re-started by a scheduler task, so that every router loop is an adopted task, and 2..3 sender tasks write 1..3 datagrams on each of their flows; schedule drawn over every lock/channel/select operation of the yield-instrumented vnet/router.go, net.go, conn.go, conn_map.go, chunk_queue.go and nat.go; at quiescence (senders done, every loop parked, queues empty): per-flow order, no duplicate, no foreign socket, translated source as established, byte-identical, nothing lost; non-trivial = >= 2 flows crossing a router and >= 2 senders; distinct by hash of topology + plan + step trace"

func TestC01Schedules(t *testing.T) {
	r := ev.New("C01", "schedules", ruleC01Sched)
	r.Assume("yield granularity = synchronisation operations of the vnet files named in the rule; timers of the router loop (MinDelay 0: sub-microsecond waits) fire for real")
	r.Check(t, func(t *rapid.T, c *ev.Case) {
		w := &world{}
		defer func() { w.close() }()
		w = genTopology(t, c, w)
		// establish flows sequentially (free running), exactly as C01 does
		var flows []*flow
		for i, n := 0, rapid.IntRange(4, 14).Draw(t, "sends"); i < n; i++ {
			si := rapid.IntRange(0, len(w.socks)-1).Draw(t, "sender")
			s := w.socks[si]
			var dst *net.UDPAddr
			why := "socket-address"
			if len(flows) > 0 && rapid.IntRange(0, 2).Draw(t, "reply") == 0 {
				f := flows[rapid.IntRange(0, len(flows)-1).Draw(t, "rf")]
				si, s = f.to, w.socks[f.to]
				dst, _ = net.ResolveUDPAddr("udp", f.from)
				why = "reply"
			} else {
				o := w.socks[rapid.IntRange(0, len(w.socks)-1).Draw(t, "other")]
				ip := o.ip
				if ip == "0.0.0.0" || ip == "127.0.0.1" {
					ip = o.host.ips[0]
				}
				dst = &net.UDPAddr{IP: net.ParseIP(ip), Port: o.port}
			}
			if s.ip == "127.0.0.1" {
				continue
			}
			if f := w.sendAndCheck(si, dst, rapid.IntRange(0, 100).Draw(t, "size"), why); f != nil {
				dup := false
				for _, x := range flows {
					if x.sock == f.sock && x.dst.String() == f.dst.String() {
						dup = true
					}
				}
				if !dup {
					flows = append(flows, f)
				}
			}
		}
		if len(flows) == 0 {
			c.Label("no-flows")
			return
		}
		if len(flows) > 6 {
			flows = flows[:6]
		}
		ng := rapid.IntRange(2, 3).Draw(t, "senders")
		per := rapid.IntRange(1, 3).Draw(t, "perflow")
		rc := sched.NewRapidChooser(t)
		c.Label("strategy/" + sched.StrategyNames[rc.Strategy])
		c.Set("flows", len(flows))
		if len(flows) >= 2 && ng >= 2 {
			c.NonTrivial()
		}
		// ---- controlled phase ---------------------------------------------------------
		if err := w.vr[0].Stop(); err != nil {
			t.Fatalf("Stop: %v", err)
		}
		s := sched.New()
		s.MaxSteps = 8000
		s.QuiesceGap = 500 * time.Microsecond
		vnet.VerifSetHooks(&vnet.VerifHooks{Yield: s.Yield, Spawn: s.Spawn, Adopt: s.Adopt, Retire: s.Retire})
		over := false
		end := func() {
			if !over {
				over = true
				s.Abort()
			}
		}
		defer func() {
			end()
			w.close()
			s.Drain(2 * time.Second)
			vnet.VerifSetHooks(nil)
		}()
		type sent struct {
			id   uint64
			data []byte
		}
		perFlow := make([][]sent, len(flows))
		started := make(chan struct{})
		s.Go("starter", func() {
			if err := w.vr[0].Start(); err != nil {
				panic(err)
			}
			close(started)
		})
		for g := 0; g < ng; g++ {
			g := g
			s.Go(fmt.Sprintf("sender%d", g), func() {
				<-started
				for k := 0; k < per; k++ {
					for fi := g; fi < len(flows); fi += ng {
						f := flows[fi]
						p, id := w.mkPayload(f.sock, 10+(k*37+fi*11)%300)
						perFlow[fi] = append(perFlow[fi], sent{id, append([]byte(nil), p...)})
						_, _ = w.vs[f.sock].WriteTo(p, f.dst)
						for i := range p {
							p[i] = 0xDD
						}
					}
				}
			})
		}
		var trace []string
		s.Run(chooserFn2(func(ss *sched.Session, en []*sched.Task) *sched.Task {
			p := rc.Pick(ss, en)
			if p != nil {
				trace = append(trace, p.Name+"@"+p.Label())
			}
			return p
		}))
		for _, x := range trace {
			c.Op("%s", x)
		}
		if s.Discarded {
			c.Label("discarded/step-limit")
			return
		}
		for _, tk := range s.Tasks() {
			if p := tk.Panicked(); p != nil {
				t.Fatalf("C01: task %s panicked: %v", tk.Name, p)
			}
		}
		for _, tk := range s.BlockedTasks() {
			if strings.HasPrefix(tk.Name, "sender") || tk.Name == "starter" {
				st, fr := tk.WaitInfo()
				t.Fatalf("C01: %s is blocked in [%s] at %s\n%s", tk.Name, st, fr, s.Describe())
			}
		}
		end()
		w.quiesce()
		got := w.collect()
		next := make([]int, len(flows))
		for _, g := range got {
			id, ok := payloadID(g.data, w.nonce)
			if !ok {
				t.Fatalf("C01: controlled phase: socket s%d received a datagram nobody sent", g.sock)
			}
			matched := false
			for fi, f := range flows {
				if next[fi] < len(perFlow[fi]) && perFlow[fi][next[fi]].id == id {
					if g.sock != f.to {
						t.Fatalf("C01: controlled phase: a datagram of flow s%d -> %s was delivered to socket s%d instead of s%d", f.sock, f.dst, g.sock, f.to)
					}
					if g.from != f.from {
						t.Fatalf("C01: controlled phase: a datagram of flow s%d -> %s shows source %s, established as %s", f.sock, f.dst, g.from, f.from)
					}
					if !bytes.Equal(g.data, perFlow[fi][next[fi]].data) {
						t.Fatalf("C01: controlled phase: payload of flow s%d -> %s modified", f.sock, f.dst)
					}
					next[fi]++
					matched = true
					break
				}
			}
			if !matched {
				t.Fatalf("C01: controlled phase: socket s%d received datagram %x out of order, twice, or on the wrong flow\n%s", g.sock, id, s.Describe())
			}
		}
		for fi, f := range flows {
			if next[fi] != len(perFlow[fi]) {
				t.Fatalf("C01: controlled phase: flow s%d -> %s: %d datagrams written, %d delivered\n%s", f.sock, f.dst, len(perFlow[fi]), next[fi], s.Describe())
			}
		}
		c.Count("schedules", 1)
		c.Count("steps", int64(s.Steps()))
	})
}

type chooserFn2 func(s *sched.Session, en []*sched.Task) *sched.Task

func (f chooserFn2) Pick(s *sched.Session, en []*sched.Task) *sched.Task { return f(s, en) }
