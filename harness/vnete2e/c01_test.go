package vnete2e

import (
	"bytes"
	"encoding/binary"
	"fmt"
	"net"
	"strings"
	"sync"
	"sync/atomic"
	"testing"
	"time"

	"github.com/pion/transport/v3/vnet"
	"pgregory.net/rapid"

	"verifharness/ev"
	"verifharness/sched"
	"verifharness/vnat"
)

type capEvent struct {
	router   int
	src, dst string
}

type world struct {
	t       *rapid.T
	c       *ev.Case
	routers []*mRouter
	vr      []*vnet.Router
	hosts   []*mHost
	vh      []*vnet.Net
	socks   []*mSock
	vs      []vnet.UDPConnLike

	activity *atomic.Int64 // moves whenever a router takes a datagram from its queue
	mu       sync.Mutex
	captures map[uint64][]capEvent // datagram id -> captures in order
	nonce    uint32
	seq      uint32
	start    time.Time
}

// payload: nonce(4) id(8: sender<<32|seq) len(4) body
func (w *world) mkPayload(sender int, size int) ([]byte, uint64) {
	id := uint64(sender)<<32 | uint64(atomic.AddUint32(&w.seq, 1))
	if size < 0 {
		size = 0
	}
	n := 16 + size
	p := make([]byte, n)
	binary.BigEndian.PutUint32(p, w.nonce)
	binary.BigEndian.PutUint64(p[4:], id)
	binary.BigEndian.PutUint32(p[12:], uint32(size))
	for i := 16; i < n; i++ {
		p[i] = byte(id*31 + uint64(i)*7)
	}
	return p, id
}

func payloadID(p []byte, nonce uint32) (uint64, bool) {
	if len(p) < 16 || binary.BigEndian.Uint32(p) != nonce {
		return 0, false
	}
	return binary.BigEndian.Uint64(p[4:]), true
}

var depNames = [...]string{"EI", "AD", "APD"}

// genTopology draws and builds the network through the public API.
func genTopology(t *rapid.T, c *ev.Case, w *world) *world {
	*w = world{t: t, c: c, activity: new(atomic.Int64), captures: map[uint64][]capEvent{}, nonce: rapid.Uint32().Draw(t, "nonce"), start: time.Now()}
	lf := quietLogger()
	addRouter := func(cidr string, parent *mRouter, cfg *vnet.RouterConfig) *mRouter {
		_, ipn, _ := net.ParseCIDR(cidr)
		mr := &mRouter{idx: len(w.routers), name: fmt.Sprintf("r%d", len(w.routers)), cidr: ipn, parent: parent, holders: map[string]any{}}
		cfg.CIDR, cfg.LoggerFactory, cfg.Name = cidr, lf, mr.name
		// a sixth of the routers delay what they forward, and forwarding itself takes
		// time there (the capture filter dawdles on every other datagram): delivery, order
		// and "nothing admitted is lost" hold for such routers as well
		var dawdle time.Duration
		if rapid.IntRange(0, 5).Draw(t, "delayed") == 0 {
			cfg.MinDelay = rapid.SampledFrom([]time.Duration{200 * time.Microsecond, time.Millisecond}).Draw(t, "minDelay")
			dawdle = cfg.MinDelay * 6 / 5
			c.Label("router/min-delay")
		}
		vr, err := vnet.NewRouter(cfg)
		if err != nil {
			t.Fatalf("NewRouter(%s): %v", cidr, err)
		}
		idx := mr.idx
		nth := 0
		vr.AddChunkFilter(func(ch vnet.Chunk) bool {
			w.activity.Add(1) // every datagram a router takes from its queue passes here
			defer w.activity.Add(1)
			if dawdle > 0 {
				nth++
				if nth%2 == 0 {
					time.Sleep(dawdle)
				}
			}
			id, ok := payloadID(ch.UserData(), w.nonce)
			if len(ch.UserData()) == 0 {
				id, ok = 0, true // the one empty datagram in flight (sequential phase only)
			}
			if ok {
				w.mu.Lock()
				w.captures[id] = append(w.captures[id], capEvent{idx, ch.SourceAddr().String(), ch.DestinationAddr().String()})
				w.mu.Unlock()
			}
			return true
		})
		w.routers = append(w.routers, mr)
		w.vr = append(w.vr, vr)
		return mr
	}
	root := addRouter("1.2.3.0/24", nil, &vnet.RouterConfig{})
	nextRootIP := 10
	addHosts := func(mr *mRouter, base string, n int, staticForPairs []string) {
		for i := 0; i < n; i++ {
			var statics []string
			kind := rapid.IntRange(0, 3).Draw(t, "hostip")
			switch {
			case i < len(staticForPairs):
				statics = []string{staticForPairs[i]}
			case kind == 1:
				statics = []string{fmt.Sprintf("%s%d", base, 100+i)}
			case kind == 2:
				statics = []string{fmt.Sprintf("%s%d", base, 120+i), fmt.Sprintf("%s%d", base, 140+i)}
				c.Label("host/two-static-ips")
			}
			vh, err := vnet.NewNet(&vnet.NetConfig{StaticIPs: statics})
			if err != nil {
				t.Fatal(err)
			}
			if err := w.vr[mr.idx].AddNet(vh); err != nil {
				t.Fatalf("AddNet: %v", err)
			}
			mh := &mHost{idx: len(w.hosts), router: mr, ips: eth0IPs(t, vh)}
			for _, ip := range mh.ips {
				if _, dup := mr.holders[ip]; dup {
					t.Fatalf("C13/C01: host %d was given %s which is already in use on %s", mh.idx, ip, mr.name)
				}
				mr.holders[ip] = mh
			}
			w.hosts = append(w.hosts, mh)
			w.vh = append(w.vh, vh)
		}
	}
	addHosts(root, "1.2.3.", rapid.IntRange(1, 2).Draw(t, "roothosts"), nil)
	nChildren := rapid.IntRange(0, 4).Draw(t, "children")
	parents := []*mRouter{root}
	depth := map[*mRouter]int{root: 0}
	for k := 0; k < nChildren; k++ {
		par := parents[rapid.IntRange(0, len(parents)-1).Draw(t, "parent")]
		if depth[par] >= 3 {
			par = root
		}
		parBase := "1.2.3."
		if par != root {
			parBase = fmt.Sprintf("10.%d.0.", par.idx)
		}
		idx := len(w.routers)
		lanBase := fmt.Sprintf("10.%d.0.", idx)
		cfg := &vnet.RouterConfig{}
		oneToOne := rapid.IntRange(0, 4).Draw(t, "one2one") == 0
		var pairLocals []string
		nIPs := rapid.IntRange(1, 2).Draw(t, "extips")
		var exts []string
		for j := 0; j < nIPs; j++ {
			nextRootIP++
			exts = append(exts, fmt.Sprintf("%s%d", parBase, 200+nextRootIP%50))
		}
		if oneToOne {
			cfg.NATType = &vnet.NATType{Mode: vnet.NATModeNAT1To1}
			for j, e := range exts {
				loc := fmt.Sprintf("%s%d", lanBase, 50+j)
				pairLocals = append(pairLocals, loc)
				cfg.StaticIPs = append(cfg.StaticIPs, e+"/"+loc)
			}
			c.Label("nat/1:1")
		} else {
			mb := rapid.IntRange(0, 2).Draw(t, "mapping")
			fb := rapid.IntRange(0, 2).Draw(t, "filtering")
			cfg.NATType = &vnet.NATType{MappingBehavior: vnet.EndpointDependencyType(mb), FilteringBehavior: vnet.EndpointDependencyType(fb), MappingLifeTime: time.Hour}
			if rapid.Bool().Draw(t, "staticext") {
				cfg.StaticIPs = exts
			} else {
				exts = nil // automatic
			}
			c.Labelf("nat/%s-%s", depNames[mb], depNames[fb])
		}
		mr := addRouter(lanBase+"0/24", par, cfg)
		mr.oneToOne = oneToOne
		if oneToOne {
			mr.pairs, mr.pairsRev = map[string]string{}, map[string]string{}
			for j, e := range exts {
				mr.pairs[e], mr.pairsRev[pairLocals[j]] = pairLocals[j], e
			}
		} else {
			nt := cfg.NATType
			mr.nat = vnat.NewModel(vnat.Dep(nt.MappingBehavior), vnat.Dep(nt.FilteringBehavior), time.Hour)
		}
		nh := rapid.IntRange(1, 2).Draw(t, "hosts")
		if oneToOne && nh < len(pairLocals) {
			nh = len(pairLocals)
		}
		addHosts(mr, lanBase, nh, pairLocals)
		if err := w.vr[par.idx].AddRouter(w.vr[mr.idx]); err != nil {
			t.Fatalf("AddRouter: %v", err)
		}
		ips, err := w.vr[mr.idx].VerifIfc()
		if err != nil {
			t.Fatal(err)
		}
		mr.parentIPs = ips
		for _, ip := range ips {
			if _, dup := par.holders[ip]; dup {
				t.Fatalf("C13/C01: router %s was given %s which is already in use on %s", mr.name, ip, par.name)
			}
			par.holders[ip] = mr
		}
		depth[mr] = depth[par] + 1
		c.Labelf("depth/%d", depth[mr])
		parents = append(parents, mr)
	}
	if err := w.vr[0].Start(); err != nil {
		t.Fatalf("Start: %v", err)
	}
	// sockets
	for hi, mh := range w.hosts {
		ns := rapid.IntRange(1, 2).Draw(t, "socks")
		// a host with two addresses may run two sockets on ONE port, each bound to one address
		onePort := len(mh.ips) >= 2 && ns == 2 && rapid.Bool().Draw(t, "onePort")
		if onePort {
			c.Label("host/two-sockets-one-port")
		}
		for k := 0; k < ns; k++ {
			ip := mh.ips[rapid.IntRange(0, len(mh.ips)-1).Draw(t, "sip")]
			switch rapid.IntRange(0, 5).Draw(t, "bind") {
			case 0, 1:
				ip = "0.0.0.0"
			case 2:
				if k > 0 {
					ip = "127.0.0.1"
				}
			}
			port := 4000 + 10*hi + k
			if onePort {
				ip, port = mh.ips[k], 4000+10*hi
			}
			cn, err := w.vh[hi].ListenUDP("udp", &net.UDPAddr{IP: net.ParseIP(ip), Port: port})
			if err != nil {
				t.Fatalf("ListenUDP(%s:%d) on host %d: %v", ip, port, hi, err)
			}
			ms := &mSock{id: len(w.socks), host: mh, ip: ip, port: port, open: true}
			mh.socks = append(mh.socks, ms)
			w.socks = append(w.socks, ms)
			w.vs = append(w.vs, cn.(vnet.UDPConnLike))
		}
	}
	return w
}

func (w *world) close() {
	for _, s := range w.vs {
		_ = s.Close()
	}
	// every router individually: a parent's Stop gives up at the first child that
	// reports an error
	for i := range w.vr {
		_ = w.vr[i].Stop()
	}
}

// quiesce waits until every router goroutine is parked in its idle select
// (two consecutive snapshots) -- then nothing is in flight.
func (w *world) quiesce() {
	deadline := time.Now().Add(5 * time.Second)
	okRuns := 0
	if w.activity == nil {
		w.activity = new(atomic.Int64) // worlds built by hand (C16): no capture filter moves it
	}
	lastActivity := int64(-1)
	for okRuns < 2 {
		// The goroutine snapshot and the queue lengths are not read at one instant: a
		// datagram that leaves one queue right after the snapshot can be missed by both.
		// Whatever leaves a queue passes the capture filter, so the pass only counts if
		// the activity counter did not move while it was taken, nor since the last pass.
		act := w.activity.Load()
		idle, total := 0, 0
		for _, g := range sched.Snapshot() {
			for _, f := range g.Frames {
				if strings.Contains(f, "vnet.(*Router).Start.func1") {
					total++
					if g.State == "select" {
						idle++
					}
					break
				}
			}
		}
		queued := 0
		for _, vr := range w.vr {
			n := vr.VerifQueueLen()
			if n < 0 {
				// the queue's internals are not readable on this tree: a datagram waiting out a
				// delay (3 ms at most with the dawdling filter) shows only in the activity counter
				time.Sleep(4 * time.Millisecond)
				n = 0
			}
			queued += n
		}
		// a loop waiting on its MinDelay timer is parked in a select too: the
		// queues must be empty as well
		// (loops of earlier, failed cases may still be around: they are idle for ever)
		if total >= len(w.routers) && idle == total && queued == 0 && w.activity.Load() == act && (okRuns == 0 || act == lastActivity) {
			okRuns++
			lastActivity = act
		} else {
			okRuns = 0
			if time.Now().After(deadline) {
				if total >= len(w.routers) && idle == total && queued > 0 {
					// for five seconds every forwarding loop has been parked while datagrams
					// wait in a queue (delays are a millisecond at most): they are stuck
					w.t.Fatalf("C01: %d datagram(s) stay queued in a started router although every forwarding loop is idle: an admitted datagram is not forwarded", queued)
				}
				w.t.Fatalf("VERIF-INFRA: the network did not become quiescent (%d of %d router loops idle, %d expected)", idle, total, len(w.routers))
			}
			time.Sleep(20 * time.Microsecond)
		}
	}
}

type received struct {
	sock int
	from string
	data []byte
}

// collect drains every open socket (exactly what has arrived).
func (w *world) collect() []received {
	var out []received
	for i, s := range w.vs {
		if !w.socks[i].open {
			continue
		}
		for s.VerifQueued() > 0 {
			buf := make([]byte, 2048)
			wait := time.Second
			if w.socks[i].remote != nil {
				wait = 2 * time.Millisecond
			}
			_ = s.SetReadDeadline(time.Now().Add(wait))
			n, from, err := s.ReadFrom(buf)
			if err != nil {
				break
			}
			out = append(out, received{i, from.String(), buf[:n]})
		}
	}
	return out
}

// srcFor returns the source address candidates of a send.
func (w *world) srcFor(s *mSock, dst *net.UDPAddr) []string {
	switch {
	case s.ip != "0.0.0.0":
		return []string{fmt.Sprintf("%s:%d", s.ip, s.port)}
	case dst.IP.IsLoopback():
		return []string{fmt.Sprintf("127.0.0.1:%d", s.port)}
	}
	var r []string
	for _, ip := range s.host.ips {
		r = append(r, fmt.Sprintf("%s:%d", ip, s.port))
	}
	return r
}

type flow struct {
	sock int
	dst  *net.UDPAddr
	to   int    // receiving socket
	from string // source the receiver sees
}

// sendAndCheck performs one sequential send and checks it against the model.
func (w *world) sendAndCheck(si int, dst *net.UDPAddr, size int, why string) *flow {
	t := w.t
	s := w.socks[si]
	p, id := w.mkPayload(si, size)
	if size < 0 {
		// a really empty datagram: identified as "the one in flight"
		p, id = []byte{}, 0
		w.mu.Lock()
		delete(w.captures, 0)
		w.mu.Unlock()
		w.c.Label("empty-payload")
	}
	orig := append([]byte(nil), p...)
	_, err := w.vs[si].WriteTo(p, dst)
	for i := range p {
		p[i] = 0xEE // the caller may overwrite its buffer as soon as the write returns
	}
	if err != nil {
		// loopback-bound sockets cannot reach the network etc.: nothing was sent
		w.c.Op("send s%d -> %s (%s): write error", si, dst, why)
		return nil
	}
	w.quiesce()
	got := w.collect()
	w.mu.Lock()
	caps := append([]capEvent(nil), w.captures[id]...)
	w.mu.Unlock()
	w.c.Op("send s%d(%s:%d h%d) -> %s len=%d (%s)", si, s.ip, s.port, s.host.idx, dst, size, why)
	w.c.Label("dst/" + why)
	// --- model walk ---
	var target *mSock
	var reported, drop string
	wk := &walker{now: time.Since(w.start), observed: func(r *mRouter, k int) (string, string, bool) {
		if k < len(caps) && caps[k].router == r.idx {
			return caps[k].src, caps[k].dst, true
		}
		return "", "", false
	}}
	cands := w.srcFor(s, dst)
	switch {
	case dst.IP.IsLoopback():
		target = s.host.cover(dst.IP.String(), dst.Port)
		reported = cands[0]
		if target == nil {
			drop = "no open socket covers the loopback destination"
		}
		if len(caps) > 0 {
			wk.fail("a loopback datagram left its host (seen at router r%d)", caps[0].router)
		}
	case s.ip == "127.0.0.1":
		drop = "loopback-bound socket"
		if len(caps) == 0 {
			return nil // nothing entered the network: fine
		}
		return nil
	default:
		src := cands[0]
		if len(caps) > 0 {
			src = caps[0].src
			okc := false
			for _, cd := range cands {
				if cd == src {
					okc = true
				}
			}
			if !okc {
				wk.fail("the datagram entered the network with source %s, the socket is bound to %s:%d on a host with addresses %v", src, s.ip, s.port, s.host.ips)
			}
		}
		sa, _ := net.ResolveUDPAddr("udp", src)
		target, reported, drop = wk.route(s.host.router, sa, dst, 0)
		if wk.k < len(caps) && len(wk.problems) == 0 {
			wk.fail("the datagram was processed by %d routers, the rules imply %d (extra hop at r%d: %s -> %s)", len(caps), wk.k, caps[wk.k].router, caps[wk.k].src, caps[wk.k].dst)
		}
	}
	t.Logf("send s%d(%s:%d on h%d/%s) -> %s len=%d [%s]: captures %v ; model: target=%v reported=%s drop=%q", si, s.ip, s.port, s.host.idx, s.host.router.name, dst, size, why, caps, sockName(target), reported, drop)
	for _, pr := range wk.problems {
		t.Fatalf("C01: %s", pr)
	}
	if target != nil && target.remote != nil && target.remote.String() != reported {
		w.c.Label("connected-socket-discard")
		target = nil
		drop = "connected socket discards other sources"
	}
	// --- compare with what the sockets received ---
	var mine []received
	for _, g := range got {
		gid, ok := payloadID(g.data, w.nonce)
		if len(g.data) == 0 {
			gid, ok = 0, true
		}
		if !ok {
			t.Fatalf("C01: socket s%d received a %d-byte datagram that nobody sent", g.sock, len(g.data))
		}
		if gid != id {
			t.Fatalf("C01: socket s%d received datagram %x again or late (current datagram is %x)", g.sock, gid, id)
		}
		mine = append(mine, g)
	}
	if target == nil {
		if len(mine) > 0 {
			t.Fatalf("C01: the datagram s%d -> %s must be dropped (%s) but socket s%d (%s:%d on h%d) received it from %s", si, dst, drop, mine[0].sock, w.socks[mine[0].sock].ip, w.socks[mine[0].sock].port, w.socks[mine[0].sock].host.idx, mine[0].from)
		}
		w.c.Label("dropped/" + strings.SplitN(drop, ":", 2)[0])
		return nil
	}
	if len(mine) == 0 {
		t.Fatalf("C01: the datagram s%d -> %s is admitted by the routing and NAT rules (socket s%d, %s:%d on h%d, must receive it from %s) but was lost; captures %v", si, dst, target.id, target.ip, target.port, target.host.idx, reported, caps)
	}
	if len(mine) > 1 {
		t.Fatalf("C01: the datagram s%d -> %s was delivered %d times", si, dst, len(mine))
	}
	g := mine[0]
	if g.sock != target.id {
		t.Fatalf("C01: the datagram s%d -> %s was delivered to socket s%d, the open socket bound to its destination is s%d (%s:%d on h%d)", si, dst, g.sock, target.id, target.ip, target.port, target.host.idx)
	}
	if !bytes.Equal(g.data, orig) {
		t.Fatalf("C01: the datagram s%d -> %s arrived with a modified payload (%d bytes, sent %d)", si, dst, len(g.data), len(orig))
	}
	if g.from != reported {
		t.Fatalf("C01: the datagram s%d -> %s shows source %s at the receiver, the NATs on its path translate it to %s", si, dst, g.from, reported)
	}
	w.c.Label("delivered")
	if len(caps) >= 2 {
		w.c.Label("delivered/multi-hop")
	}
	return &flow{si, dst, target.id, reported}
}

func sockName(s *mSock) string {
	if s == nil {
		return "nobody"
	}
	return fmt.Sprintf("s%d", s.id)
}

const ruleC01 = "rapid-drawn topology built through the public API (root router; 0..4 child routers nested to depth 3, each NAPT with one of the 9 mapping x filtering behaviours and static or automatic parent-side addresses, or 1:1 with 1..2 address pairs; 1..2 hosts per router with automatic, one or two static addresses; 1..2 sockets per host bound to a specific address, the wildcard or loopback, on a two-address host possibly both on one port) with a pass-through capture filter on every router; sequential phase of 5..40 sends (destination: another socket's address, a reply to an observed translated source, an unbound port, an unroutable address, loopback, an external NAT address with a learned or arbitrary port; size 0..1484 incl. empty; the sender overwrites its buffer after the write), the network brought to quiescence after each (all router loops parked); a model (Appendix A) walks every datagram hop by hop against the captures, learning NAPT addresses, and the sockets' receive queues are compared: delivered iff admitted, exactly once, byte-identical, only to the socket bound to the destination, showing the translated source; then a concurrent phase replays the established flows from 2..6 goroutines in bursts and checks per-flow order, no duplicates, no foreign socket, completeness; non-trivial = a datagram crossed a NAT outbound and a reply crossed it inbound; distinct by hash of topology + plan"

func TestC01Delivery(t *testing.T) {
	r := ev.New("C01", "delivery", ruleC01)
	r.Essential = []string{"reply-through-nat", "dst/unbound-port", "dst/unroutable", "dst/loopback", "dst/nat-external", "nat/1:1", "depth/2", "empty-payload", "dropped/NAT r1", "concurrent-phase"}
	r.MinForEssential = 400
	r.Assume("NAT lifetimes are 1 h, so no mapping expires during a case (expiry is C02/C03); quiescence = two goroutine snapshots with every router loop parked in its idle select")
	r.Check(t, func(t *rapid.T, c *ev.Case) {
		w := &world{}
		defer func() { w.close() }()
		w = genTopology(t, c, w)
		c.Set("routers", len(w.routers))
		c.Set("hosts", len(w.hosts))
		c.Set("sockets", len(w.socks))
		for _, mr := range w.routers {
			par := "-"
			if mr.parent != nil {
				par = mr.parent.name
			}
			kind := "root"
			if mr.oneToOne {
				kind = fmt.Sprintf("1:1 %v", mr.pairs)
			} else if mr.nat != nil {
				kind = fmt.Sprintf("NAPT %s/%s", depNames[mr.nat.Mapping], depNames[mr.nat.Filtering])
			}
			c.Op("router %s %s parent=%s ext=%v %s", mr.name, mr.cidr, par, mr.parentIPs, kind)
			t.Logf("router %s %s parent=%s ext=%v %s", mr.name, mr.cidr, par, mr.parentIPs, kind)
		}
		for _, s := range w.socks {
			c.Op("socket s%d %s:%d on h%d (%v) at %s", s.id, s.ip, s.port, s.host.idx, s.host.ips, s.host.router.name)
			t.Logf("socket s%d %s:%d on h%d (%v) at %s", s.id, s.ip, s.port, s.host.idx, s.host.ips, s.host.router.name)
		}
		var flows []*flow
		var seen []*flow // delivered flows, for replies
		natOut := false
		n := rapid.IntRange(5, 40).Draw(t, "sends")
		for i := 0; i < n; i++ {
			si := rapid.IntRange(0, len(w.socks)-1).Draw(t, "sender")
			s := w.socks[si]
			size := rapid.IntRange(0, 200).Draw(t, "size")
			switch rapid.IntRange(0, 9).Draw(t, "sk") {
			case 0:
				size = -1 // empty datagram
			case 2:
				size = 0
			case 1:
				size = rapid.IntRange(201, 1484).Draw(t, "bsize")
			}
			var dst *net.UDPAddr
			why := ""
			switch k := rapid.IntRange(0, 99).Draw(t, "dk"); {
			case k < 35:
				// another socket's own address (reachable only if public / same subnet)
				o := w.socks[rapid.IntRange(0, len(w.socks)-1).Draw(t, "other")]
				ip := o.ip
				if ip == "0.0.0.0" || ip == "127.0.0.1" {
					ip = o.host.ips[0]
				}
				dst, why = &net.UDPAddr{IP: net.ParseIP(ip), Port: o.port}, "socket-address"
			case k < 60 && len(seen) > 0:
				// reply to an observed (translated) source, from the socket that received it
				f := seen[rapid.IntRange(0, len(seen)-1).Draw(t, "reply")]
				si = f.to
				s = w.socks[si]
				dst, _ = net.ResolveUDPAddr("udp", f.from)
				why = "reply"
			case k < 68:
				o := w.socks[rapid.IntRange(0, len(w.socks)-1).Draw(t, "other")]
				dst, why = &net.UDPAddr{IP: net.ParseIP(o.host.ips[0]), Port: 3999}, "unbound-port"
			case k < 74:
				dst, why = &net.UDPAddr{IP: net.ParseIP("99.9.9.9"), Port: 4000}, "unroutable"
			case k < 82:
				dst, why = &net.UDPAddr{IP: net.ParseIP("127.0.0.1"), Port: s.host.socks[rapid.IntRange(0, len(s.host.socks)-1).Draw(t, "lo")].port}, "loopback"
			case k < 92 && len(w.routers) > 1:
				// an external NAT address with a learned or arbitrary port
				mr := w.routers[rapid.IntRange(1, len(w.routers)-1).Draw(t, "natr")]
				port := 0xC000 + rapid.IntRange(0, 3).Draw(t, "natport")
				if mr.oneToOne {
					port = 4000 + rapid.IntRange(0, 40).Draw(t, "natport2")
				}
				dst, why = &net.UDPAddr{IP: net.ParseIP(mr.parentIPs[rapid.IntRange(0, len(mr.parentIPs)-1).Draw(t, "natip")]), Port: port}, "nat-external"
			default:
				o := w.socks[rapid.IntRange(0, len(w.socks)-1).Draw(t, "other")]
				dst, why = &net.UDPAddr{IP: net.ParseIP(o.host.ips[len(o.host.ips)-1]), Port: o.port}, "socket-address"
			}
			if s.ip == "127.0.0.1" && !dst.IP.IsLoopback() {
				continue // no real caller does this (no return path)
			}
			if rapid.Bool().Draw(t, "dst4") {
				// the 4-byte form of the same address (what a peer's ReadFrom reports on some paths)
				dst = &net.UDPAddr{IP: append(net.IP(nil), dst.IP.To4()...), Port: dst.Port}
				w.c.Label("dst/4-byte-ip")
			}
			if rapid.IntRange(0, 19).Draw(t, "rebind") == 7 {
				// the socket is closed, its address is bound again by a new socket, and the
				// old one is closed a second time (deferred Close after an explicit one):
				// from now on the NEW socket is "the open socket bound to the address"
				ri := rapid.IntRange(0, len(w.socks)-1).Draw(t, "rsock")
				old := w.vs[ri]
				ms := w.socks[ri]
				if err := old.Close(); err != nil {
					t.Fatalf("Close of s%d: %v", ri, err)
				}
				cn, err := w.vh[ms.host.idx].ListenUDP("udp", &net.UDPAddr{IP: net.ParseIP(ms.ip), Port: ms.port})
				if err != nil {
					t.Fatalf("C13/C01: re-binding %s:%d after Close failed: %v", ms.ip, ms.port, err)
				}
				w.vs[ri] = cn.(vnet.UDPConnLike)
				_ = old.Close()
				c.Label("socket-rebound")
				c.Op("rebind s%d", ri)
				t.Logf("socket s%d (%s:%d) closed, re-bound, old one closed again", ri, ms.ip, ms.port)
			}
			f := w.sendAndCheck(si, dst, size, why)
			if f != nil {
				seen = append(seen, f)
				crossed := f.from != fmt.Sprintf("%s:%d", s.ip, s.port) && !strings.HasPrefix(f.from, "127.")
				if s.ip == "0.0.0.0" {
					crossed = true
					for _, ip := range s.host.ips {
						if f.from == fmt.Sprintf("%s:%d", ip, s.port) {
							crossed = false
						}
					}
				}
				if crossed {
					natOut = true
				}
				if why == "reply" && natOut {
					c.Label("reply-through-nat")
					c.NonTrivial()
				}
				dup := false
				for _, x := range flows {
					if x.sock == f.sock && x.dst.String() == f.dst.String() {
						dup = true
					}
				}
				if !dup {
					flows = append(flows, f)
				}
			}
		}
		// ---- concurrent phase: replay the established flows in bursts ------------------
		if len(flows) == 0 {
			return
		}
		c.Label("concurrent-phase")
		ng := rapid.IntRange(2, 6).Draw(t, "senders")
		burst := rapid.IntRange(5, 60).Draw(t, "burst")
		type sent struct {
			id   uint64
			data []byte
		}
		perFlow := make([][]sent, len(flows))
		var wg sync.WaitGroup
		for g := 0; g < ng; g++ {
			wg.Add(1)
			go func(g int) {
				defer wg.Done()
				// goroutine g owns the flows fi with fi % ng == g: per-flow order is defined,
				// different flows are written concurrently
				for k := 0; k < burst; k++ {
					for fi := g; fi < len(flows); fi += ng {
						f := flows[fi]
						p, id := w.mkPayload(f.sock, 10+(k*37+fi*11)%900)
						perFlow[fi] = append(perFlow[fi], sent{id, append([]byte(nil), p...)})
						_, _ = w.vs[f.sock].WriteTo(p, f.dst)
						for i := range p {
							p[i] = 0xDD
						}
					}
				}
			}(g)
		}
		wg.Wait()
		w.quiesce()
		got := w.collect()
		next := make([]int, len(flows))
		for _, g := range got {
			id, ok := payloadID(g.data, w.nonce)
			if !ok {
				t.Fatalf("C01: concurrent phase: socket s%d received a datagram nobody sent", g.sock)
			}
			matched := false
			for fi, f := range flows {
				if next[fi] < len(perFlow[fi]) && perFlow[fi][next[fi]].id == id {
					if g.sock != f.to {
						t.Fatalf("C01: concurrent phase: a datagram of flow s%d -> %s was delivered to socket s%d instead of s%d", f.sock, f.dst, g.sock, f.to)
					}
					if g.from != f.from {
						t.Fatalf("C01: concurrent phase: a datagram of flow s%d -> %s shows source %s, established as %s", f.sock, f.dst, g.from, f.from)
					}
					if !bytes.Equal(g.data, perFlow[fi][next[fi]].data) {
						t.Fatalf("C01: concurrent phase: payload of flow s%d -> %s modified", f.sock, f.dst)
					}
					next[fi]++
					matched = true
					break
				}
			}
			if !matched {
				t.Fatalf("C01: concurrent phase: socket s%d received datagram %x out of order, twice, or on the wrong flow", g.sock, id)
			}
		}
		for fi, f := range flows {
			if next[fi] != len(perFlow[fi]) {
				t.Fatalf("C01: concurrent phase: flow s%d -> %s: %d datagrams written, %d delivered (routers started, queues far below capacity, no loss filter)", f.sock, f.dst, len(perFlow[fi]), next[fi])
			}
		}
		c.Count("flows", int64(len(flows)))
	})
}
