package vnete2e

import (
	"fmt"
	"net"
	"time"

	"verifharness/vnat"
)

// Reference semantics of DESIGN.md Appendix A: routers, subnets, hosts,
// sockets, NAPT and 1:1 NAT. External NAPT addresses are learned from the
// per-router captures and constrained (vnat.Model), never predicted.

type mRouter struct {
	idx       int
	name      string
	cidr      *net.IPNet
	parent    *mRouter
	parentIPs []string // addresses on the parent's subnet (empty for the root)
	oneToOne  bool
	pairs     map[string]string // 1:1: external IP -> local IP
	pairsRev  map[string]string // local IP -> external IP
	nat       *vnat.Model       // NAPT
	holders   map[string]any    // address in this subnet -> *mHost | *mRouter
}

type mHost struct {
	idx    int
	router *mRouter
	ips    []string
	socks  []*mSock
}

type mSock struct {
	id     int
	host   *mHost
	ip     string // "0.0.0.0", "127.0.0.1" or an address of the host
	port   int
	remote *net.UDPAddr
	open   bool
}

type hop struct {
	router   *mRouter
	src, dst string
}

type expectation struct {
	hops      []hop // expected capture sequence; src may be "?" when it has to be learned
	target    *mSock
	reported  string // source the receiver must see ("?" = the learned external address)
	dropWhy   string
	learnSrc  bool // the sender's source IP is any of the host's addresses
	discarded bool // reaches a connected socket that discards it
}

func (h *mHost) has(ip string) bool {
	for _, x := range h.ips {
		if x == ip {
			return true
		}
	}
	return false
}

// cover returns the open socket of the host that covers (ip, port).
func (h *mHost) cover(ip string, port int) *mSock {
	for _, s := range h.socks {
		if s.open && s.port == port && (s.ip == "0.0.0.0" || s.ip == ip) {
			return s
		}
	}
	return nil
}

type walker struct {
	now      time.Duration
	observed func(r *mRouter, k int) (src, dst string, ok bool) // k-th capture of this datagram
	problems []string
	k        int
	hops     []hop
}

func (w *walker) fail(f string, a ...any) { w.problems = append(w.problems, fmt.Sprintf(f, a...)) }

// route walks the datagram through the model, consuming the observed
// captures hop by hop (learning NAPT addresses), and returns the socket that
// must receive it (nil: dropped) with the source it must report.
func (w *walker) route(r *mRouter, src, dst *net.UDPAddr, depth int) (*mSock, string, string) {
	if depth > 12 {
		return nil, "", "routing loop"
	}
	// the datagram is processed by router r: it must show up in r's capture
	osrc, odst, ok := w.observed(r, w.k)
	w.k++
	w.hops = append(w.hops, hop{r, src.String(), dst.String()})
	if !ok {
		w.fail("the datagram never reached router %s (expected there as %s -> %s)", r.name, src, dst)
		return nil, "", "lost before " + r.name
	}
	if odst != dst.String() {
		w.fail("at router %s the datagram is addressed to %s, expected %s", r.name, odst, dst)
		return nil, "", "misaddressed"
	}
	if osrc != src.String() {
		w.fail("at router %s the datagram shows source %s, expected %s", r.name, osrc, src)
		return nil, "", "wrong source"
	}
	if r.cidr.Contains(dst.IP) {
		switch nic := r.holders[dst.IP.String()].(type) {
		case *mHost:
			s := nic.cover(dst.IP.String(), dst.Port)
			if s == nil {
				return nil, "", "no open socket covers the destination"
			}
			return s, src.String(), ""
		case *mRouter:
			// inbound through the child's NAT
			c := nic
			if c.oneToOne {
				loc, paired := c.pairs[dst.IP.String()]
				if !paired {
					return nil, "", "1:1 NAT: unpaired external address"
				}
				return w.route(c, src, &net.UDPAddr{IP: net.ParseIP(loc), Port: dst.Port}, depth+1)
			}
			verdict, internal, why := c.nat.Inbound(src, dst.String(), w.now)
			if verdict != 1 {
				return nil, "", "NAT " + c.name + ": " + why
			}
			ia, _ := net.ResolveUDPAddr("udp", internal)
			return w.route(c, src, ia, depth+1)
		default:
			return nil, "", "no NIC holds the destination address"
		}
	}
	if r.parent == nil {
		return nil, "", "no route (root)"
	}
	// outbound through r's NAT to the parent
	if r.oneToOne {
		ext, paired := r.pairsRev[src.IP.String()]
		if !paired {
			return nil, "", "1:1 NAT: unpaired local address"
		}
		return w.route(r.parent, &net.UDPAddr{IP: net.ParseIP(ext), Port: src.Port}, dst, depth+1)
	}
	// NAPT: learn the external address from the parent's capture
	psrc, _, ok := w.observed(r.parent, w.k)
	if !ok {
		w.fail("router %s did not forward the datagram %s -> %s to its parent %s", r.name, src, dst, r.parent.name)
		return nil, "", "lost at NAT " + r.name
	}
	ext, err := net.ResolveUDPAddr("udp", psrc)
	if err != nil {
		w.fail("unparsable translated source %q", psrc)
		return nil, "", "bad source"
	}
	okIP := false
	for _, ip := range r.parentIPs {
		if ip == ext.IP.String() {
			okIP = true
		}
	}
	if !okIP || ext.Port < 1 || ext.Port > 65535 {
		w.fail("C02/C01: NAT %s translated %s to %s, which is not a valid address of the router (its addresses: %v)", r.name, src, psrc, r.parentIPs)
	}
	mp, live := r.nat.Lookup(src, dst, w.now)
	switch {
	case mp != nil && live == 1:
		if mp.Ext() != psrc {
			w.fail("C02/C01: NAT %s gave %s -> %s the external address %s, its live mapping has %s", r.name, src, dst, psrc, mp.Ext())
		}
		r.nat.Refresh(mp, dst, w.now)
	default:
		if l, clash := r.nat.LiveExts(w.now, mp)[psrc]; clash && l == 1 {
			w.fail("C02/C01: NAT %s gave the new mapping %s -> %s the external address %s of another live mapping", r.name, src, dst, psrc)
		}
		r.nat.Create(src, dst, psrc, w.now)
	}
	return w.route(r.parent, ext, dst, depth+1)
}
