package vnete2e

import (
	"encoding/binary"
	"math"
	"net"
	"testing"
	"time"

	"github.com/pion/transport/v3/vnet"
	"pgregory.net/rapid"

	"verifharness/ev"
)

const ruleC16E2E = "end-to-end variant through the public API: NewLossFilter(host, chance) attached to a router with AddNet, chance from {0, 1, 50, 99, 100, 150} and uniform 0..100; a second host sends 200..3000 tagged datagrams (8000 for the statistical cases) to a socket behind the filter; after router quiescence the receiving socket's queue is read out; oracle: chance 0 -> all arrive, chance >= 100 -> none, always an in-order duplicate-free byte-identical subsequence with the right source, 0<chance<100 on 8000 datagrams -> dropped count within 6 sigma; non-trivial = >= 500 datagrams; distinct by hash of chance + count"

func TestC16LossE2E(t *testing.T) {
	r := ev.New("C16", "e2e", ruleC16E2E)
	r.Check(t, func(t *rapid.T, c *ev.Case) {
		var chance int
		if rapid.Bool().Draw(t, "fixed") {
			chance = rapid.SampledFrom([]int{0, 1, 50, 99, 100, 150}).Draw(t, "chance")
		} else {
			chance = rapid.IntRange(0, 100).Draw(t, "chance")
		}
		n := rapid.IntRange(200, 900).Draw(t, "n")
		stat := rapid.IntRange(0, 3).Draw(t, "stat") == 1
		if stat {
			n = 8000
		}
		c.Set("chance", chance)
		c.Set("n", n)
		if n >= 500 {
			c.NonTrivial()
		}
		lf := quietLogger()
		router, err := vnet.NewRouter(&vnet.RouterConfig{CIDR: "10.0.0.0/24", LoggerFactory: lf})
		if err != nil {
			t.Fatal(err)
		}
		a, _ := vnet.NewNet(&vnet.NetConfig{StaticIPs: []string{"10.0.0.2"}})
		b, _ := vnet.NewNet(&vnet.NetConfig{StaticIPs: []string{"10.0.0.3"}})
		filter, err := vnet.NewLossFilter(b, chance)
		if err != nil {
			t.Fatal(err)
		}
		if err = router.AddNet(a); err != nil {
			t.Fatal(err)
		}
		if err = router.AddNet(filter); err != nil {
			t.Fatal(err)
		}
		if err = router.Start(); err != nil {
			t.Fatal(err)
		}
		defer router.Stop() //nolint:errcheck
		src, err := a.ListenUDP("udp", &net.UDPAddr{IP: net.ParseIP("10.0.0.2"), Port: 4000})
		if err != nil {
			t.Fatal(err)
		}
		defer src.Close() //nolint:errcheck
		dstc, err := b.ListenUDP("udp", &net.UDPAddr{IP: net.ParseIP("10.0.0.3"), Port: 4000})
		if err != nil {
			t.Fatal(err)
		}
		defer dstc.Close() //nolint:errcheck
		dst := &net.UDPAddr{IP: net.ParseIP("10.0.0.3"), Port: 4000}
		rcv := dstc.(vnet.UDPConnLike)
		last := -1
		got := 0
		drain := func() {
			for rcv.VerifQueued() > 0 {
				buf := make([]byte, 64)
				_ = rcv.SetReadDeadline(time.Now().Add(time.Second))
				k, from, err := rcv.ReadFrom(buf)
				if err != nil {
					t.Fatalf("VERIF-INFRA: read: %v", err)
				}
				if k != 12 || from.String() != "10.0.0.2:4000" {
					t.Fatalf("C16: received a %d-byte datagram from %s that was never sent", k, from)
				}
				sq := int(binary.BigEndian.Uint32(buf))
				if sq <= last || sq >= n {
					t.Fatalf("C16: datagram %d arrived after %d (reordered, duplicated or invented) with chance %d", sq, last, chance)
				}
				last = sq
				got++
			}
		}
		w := &world{t: t, vr: []*vnet.Router{router}, routers: []*mRouter{{}}}
		for i := 0; i < n; i++ {
			p := make([]byte, 12)
			binary.BigEndian.PutUint32(p, uint32(i))
			if _, err := src.WriteTo(p, dst); err != nil {
				t.Fatal(err)
			}
			if i%400 == 399 {
				w.quiesce()
				drain() // keep the receive queue (1024) far from full
			}
		}
		w.quiesce()
		drain()
		dropped := n - got
		switch {
		case chance <= 0:
			c.Label("chance/0")
			if dropped != 0 {
				t.Fatalf("C16: chance %d dropped %d of %d datagrams", chance, dropped, n)
			}
		case chance >= 100:
			c.Label("chance/>=100")
			if got != 0 {
				t.Fatalf("C16: chance %d forwarded %d of %d datagrams", chance, got, n)
			}
		default:
			c.Label("chance/middle")
			if stat {
				p := float64(chance) / 100
				if dev, bound := math.Abs(float64(dropped)-float64(n)*p), 6*math.Sqrt(float64(n)*p*(1-p)); dev > bound {
					t.Fatalf("C16: chance %d: dropped %d of %d datagrams, expected %.0f +- %.0f (6 sigma)", chance, dropped, n, float64(n)*p, bound)
				}
				c.Label("statistical")
			}
		}
	})
}
