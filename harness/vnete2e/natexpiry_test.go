package vnete2e

import (
	"fmt"
	"net"
	"sync"
	"testing"
	"time"

	"github.com/pion/transport/v3/vnet"
	"pgregory.net/rapid"

	"verifharness/ev"
)

// End-to-end expiry and refresh of NAPT mappings through real routers on the
// real clock (C02 and C03). The translator compares time.Now() with the
// expiry instant when a datagram is processed; a datagram written at tb and
// received at tr was processed somewhere in [tb, tr], so
//   - a mapping last used by an outbound datagram (tb, tr) is certainly live
//     for everything processed before tb+L, and certainly gone for everything
//     sent after tr+L;
//   - in between nothing is claimed (the case is abandoned when the harness
//     cannot keep its own schedule).

type e2eMapping struct {
	key       string
	owner     int // client index
	ext       string
	contacted map[string]bool // server addresses (ip:port) the owner sent to through it
	tb, tr    time.Time       // last outbound through it: written at, received at
}

const ruleNATExpiry = "end-to-end history through real routers on the real clock: LAN router with NAPT (all 9 mapping x filtering behaviours, mapping lifetime 30 ms; a third of these routers with a MinDelay of a third or half of the lifetime, and chunk filters on both routers that note when each outbound datagram was taken off the LAN router's queue - before its translation - and off the WAN router's - after it), 2 client sockets, 3 server sockets on 2 WAN hosts (same IP two ports, other IP); 4..24 steps of outbound(client, server), inbound(server, learned external address), pause of 1/6, 1/2 or 2/3 lifetime, pause past the lifetime of every mapping; the translator evaluates expiry with time.Now() when it processes a datagram, which lies between the write and the receipt (between the two noted times for outbound datagrams), so: an outbound received before tb_last+L must show the mapping's external address again; an inbound whose FIFO marker (same server, through the just-refreshed mapping of a third client) arrives before tb_last+L must be forwarded iff the sender is permitted by the filtering behaviour, to the owner, with source and payload unchanged; an inbound sent after tr_last+L must be dropped although inbound traffic kept arriving in between (inbound never prolongs) and the next outbound gets a mapping whose address no certainly-live mapping holds; cases in which the harness misses its own timing window are abandoned without verdict; non-trivial = at least one certainly-expired decision and one certainly-live reuse; distinct by hash of the steps"

func runNATExpiry(t *rapid.T, c *ev.Case, focus string) {
	const life = 30 * time.Millisecond
	mb := rapid.IntRange(0, 2).Draw(t, "mapping")
	fb := rapid.IntRange(0, 2).Draw(t, "filtering")
	dep := []vnet.EndpointDependencyType{vnet.EndpointIndependent, vnet.EndpointAddrDependent, vnet.EndpointAddrPortDependent}
	names := []string{"EI", "AD", "APD"}
	c.Labelf("nat/%s-%s", names[mb], names[fb])
	lf := quietLogger()
	wan, err := vnet.NewRouter(&vnet.RouterConfig{CIDR: "27.0.0.0/8", LoggerFactory: lf})
	if err != nil {
		t.Fatalf("VERIF-INFRA: %v", err)
	}
	defer wan.Stop() //nolint:errcheck
	h1, _ := vnet.NewNet(&vnet.NetConfig{StaticIPs: []string{"27.0.0.50"}})
	h2, _ := vnet.NewNet(&vnet.NetConfig{StaticIPs: []string{"27.0.0.51"}})
	// A third of the NAT routers hold every datagram back for a third or half of the
	// lifetime: the lifetime of a mapping runs from translation to translation, wherever in
	// the router the datagram spent its time before.
	delay := rapid.SampledFrom([]time.Duration{0, 0, 0, 0, life / 3, life / 2}).Draw(t, "natRouterMinDelay")
	if delay > 0 {
		c.Label("nat-router/min-delay")
	}
	lan, err := vnet.NewRouter(&vnet.RouterConfig{
		CIDR: "192.168.0.0/24", StaticIPs: []string{"27.0.0.1"}, LoggerFactory: lf, MinDelay: delay,
		NATType: &vnet.NATType{MappingBehavior: dep[mb], FilteringBehavior: dep[fb], MappingLifeTime: life},
	})
	if err != nil {
		t.Fatalf("VERIF-INFRA: %v", err)
	}
	// Chunk filters run when a router takes a datagram off its queue, before it translates
	// (LAN router) resp. after it has been translated (WAN router): the translation of the
	// outbound datagram with payload p happened in [seenLAN[p], seenWAN[p]].
	var seenMu sync.Mutex
	seenLAN, seenWAN := map[string]time.Time{}, map[string]time.Time{}
	note := func(m map[string]time.Time) func(vnet.Chunk) bool {
		return func(ch vnet.Chunk) bool {
			now := time.Now()
			seenMu.Lock()
			if _, dup := m[string(ch.UserData())]; !dup {
				m[string(ch.UserData())] = now
			}
			seenMu.Unlock()
			return true
		}
	}
	lan.AddChunkFilter(note(seenLAN))
	wan.AddChunkFilter(note(seenWAN))
	seen := func(m map[string]time.Time, p string, fallback time.Time) time.Time {
		seenMu.Lock()
		defer seenMu.Unlock()
		if at, ok := m[p]; ok {
			return at
		}
		return fallback
	}
	lh, _ := vnet.NewNet(&vnet.NetConfig{StaticIPs: []string{"192.168.0.10"}})
	for _, e := range []error{wan.AddNet(h1), wan.AddNet(h2), lan.AddNet(lh), wan.AddRouter(lan), wan.Start()} {
		if e != nil {
			t.Fatalf("VERIF-INFRA: %v", e)
		}
	}
	listen := func(n *vnet.Net, ip string, port int) net.PacketConn {
		cn, err := n.ListenUDP("udp", &net.UDPAddr{IP: net.ParseIP(ip), Port: port})
		if err != nil {
			t.Fatalf("VERIF-INFRA: %v", err)
		}
		return cn
	}
	servers := []net.PacketConn{listen(h1, "27.0.0.50", 9000), listen(h1, "27.0.0.50", 9001), listen(h2, "27.0.0.51", 9000)}
	srvAddr := []*net.UDPAddr{{IP: net.ParseIP("27.0.0.50"), Port: 9000}, {IP: net.ParseIP("27.0.0.50"), Port: 9001}, {IP: net.ParseIP("27.0.0.51"), Port: 9000}}
	clients := []net.PacketConn{listen(lh, "192.168.0.10", 4000), listen(lh, "192.168.0.10", 4001)}
	keeper := listen(lh, "192.168.0.10", 4999) // its mapping is refreshed right before it carries a marker
	defer func() {
		for _, s := range servers {
			_ = s.Close()
		}
		for _, s := range clients {
			_ = s.Close()
		}
		_ = keeper.Close()
	}()
	abandoned := false
	abandon := func(why string) {
		abandoned = true
		c.Label("abandoned/" + why)
	}
	recv := func(cn net.PacketConn, d time.Duration) (string, *net.UDPAddr, time.Time, bool) {
		buf := make([]byte, 200)
		_ = cn.SetReadDeadline(time.Now().Add(d))
		n, from, err := cn.ReadFrom(buf)
		at := time.Now()
		if err != nil {
			return "", nil, at, false
		}
		return string(buf[:n]), from.(*net.UDPAddr), at, true
	}
	key := func(cl, sv int) string {
		switch mb {
		case 0:
			return fmt.Sprintf("c%d", cl)
		case 1:
			return fmt.Sprintf("c%d>%s", cl, srvAddr[sv].IP)
		}
		return fmt.Sprintf("c%d>%s", cl, srvAddr[sv])
	}
	permitted := func(m *e2eMapping, sv int) bool {
		switch fb {
		case 0:
			return len(m.contacted) > 0
		case 1:
			for a := range m.contacted {
				if udpAddr(a).IP.Equal(srvAddr[sv].IP) {
					return true
				}
			}
			return false
		}
		return m.contacted[srvAddr[sv].String()]
	}
	maps := map[string]*e2eMapping{}
	var learned []*e2eMapping
	seq := 0
	sureLive := func(m *e2eMapping, processedBy time.Time) bool { return processedBy.Before(m.tb.Add(life)) }
	sureDead := func(m *e2eMapping, sentAt time.Time) bool { return sentAt.After(m.tr.Add(life)) }
	expiredDecisions, liveReuse := 0, 0

	outbound := func(cl, sv int) {
		seq++
		msg := fmt.Sprintf("out-%d", seq)
		tb := time.Now()
		if _, err := clients[cl].WriteTo([]byte(msg), srvAddr[sv]); err != nil {
			t.Fatalf("C02: outbound write failed: %v", err)
		}
		got, from, tr, ok := recv(servers[sv], 3*time.Second)
		c.Op("out c%d>s%d", cl, sv)
		if !ok || got != msg {
			t.Fatalf("C02/C01: outbound datagram %q from client %d to %s did not arrive (got %q, %v)", msg, cl, srvAddr[sv], got, ok)
		}
		// translated after the LAN router took it off its queue, before the WAN router did
		tb, tr = seen(seenLAN, msg, tb), seen(seenWAN, msg, tr)
		ext := from.String()
		t.Logf("outbound c%d -> %s: external %s", cl, srvAddr[sv], ext)
		if !from.IP.Equal(net.ParseIP("27.0.0.1")) || from.Port < 1 || from.Port > 65535 {
			t.Fatalf("C02: external address %s is not the router's IP with a valid port", ext)
		}
		k := key(cl, sv)
		m := maps[k]
		switch {
		case m != nil && sureLive(m, tr):
			if ext != m.ext {
				t.Fatalf("C02: client %d -> %s shows %s, but its mapping %s was used %v ago (received) and lives %v: outbound traffic within the lifetime must keep the address",
					cl, srvAddr[sv], ext, m.ext, tr.Sub(m.tb), life)
			}
			liveReuse++
			c.Label("mapping/reused-live")
			m.contacted[srvAddr[sv].String()] = true
			m.tb, m.tr = tb, tr
		case m != nil && !sureDead(m, tb):
			abandon("outbound-in-grey-zone")
		default:
			for _, o := range maps {
				if o != m && o.ext == ext && sureLive(o, tr) {
					t.Fatalf("C02: the new mapping of client %d -> %s got %s, which the live mapping %s holds", cl, srvAddr[sv], ext, o.key)
				}
			}
			if m != nil {
				c.Label("mapping/recreated-after-expiry")
				expiredDecisions++
			}
			nm := &e2eMapping{key: k, owner: cl, ext: ext, contacted: map[string]bool{srvAddr[sv].String(): true}, tb: tb, tr: tr}
			maps[k] = nm
			learned = append(learned, nm)
		}
	}
	inbound := func(sv int, m *e2eMapping) {
		// refresh the keeper's mapping towards this server, learn its address
		seq++
		kmsg := fmt.Sprintf("keep-%d", seq)
		if _, err := keeper.WriteTo([]byte(kmsg), srvAddr[sv]); err != nil {
			t.Fatalf("VERIF-INFRA: keeper write: %v", err)
		}
		got, kext, _, ok := recv(servers[sv], 3*time.Second)
		if !ok || got != kmsg {
			t.Fatalf("C01: keeper datagram did not arrive (%q, %v)", got, ok)
		}
		seq++
		probe, marker := fmt.Sprintf("in-%d", seq), fmt.Sprintf("marker-%d", seq)
		ts := time.Now()
		if _, err := servers[sv].WriteTo([]byte(probe), udpAddr(m.ext)); err != nil {
			t.Fatalf("C03: inbound write failed: %v", err)
		}
		if _, err := servers[sv].WriteTo([]byte(marker), kext); err != nil {
			t.Fatalf("VERIF-INFRA: marker write: %v", err)
		}
		mg, _, tm, ok := recv(keeper, 3*time.Second)
		if !ok || mg != marker {
			if time.Since(ts) > life/2 {
				abandon("marker-late")
				return
			}
			t.Fatalf("C03/C01: the marker through the keeper's mapping, refreshed a moment ago, did not arrive (%q, %v)", mg, ok)
		}
		// the probe was processed before the marker: it is in the owner's queue now, or it was dropped
		pg, pfrom, _, pok := recv(clients[m.owner], 2*time.Millisecond)
		for i, cn := range clients {
			if i != m.owner {
				if og, _, _, ook := recv(cn, time.Millisecond); ook {
					t.Fatalf("C03: the inbound datagram %s -> %s was delivered to client %d (%q), the mapping was created by client %d", srvAddr[sv], m.ext, i, og, m.owner)
				}
			}
		}
		c.Op("in s%d>%s", sv, m.key)
		t.Logf("inbound %s -> %s (%s): forwarded=%v", srvAddr[sv], m.ext, m.key, pok)
		cur := maps[m.key] == m
		switch {
		case cur && sureLive(m, tm):
			want := permitted(m, sv)
			if want && !pok {
				t.Fatalf("C03: inbound %s -> %s was dropped although the mapping is live (last outbound written %v before the marker arrived, lifetime %v) and the sender was contacted through it", srvAddr[sv], m.ext, tm.Sub(m.tb), life)
			}
			if !want && pok {
				t.Fatalf("C03: inbound %s -> %s was forwarded although client %d never sent to a matching remote through this mapping (filtering %s, contacted %v)", srvAddr[sv], m.ext, m.owner, names[fb], m.contacted)
			}
			if want {
				c.Label("inbound/forwarded-live")
			} else {
				c.Label("inbound/refused-filter")
			}
		case sureDead(m, ts):
			// nobody else may have inherited the address meanwhile (ports are handed out upwards), so: dropped
			inherited := false
			for _, o := range maps {
				if o != m && o.ext == m.ext {
					inherited = true
				}
			}
			if pok && !inherited {
				t.Fatalf("C02/C03: inbound %s -> %s was forwarded although the last outbound datagram through that mapping was received %v before the probe was sent (lifetime %v): the mapping has ended, and inbound traffic must not have prolonged it",
					srvAddr[sv], m.ext, ts.Sub(m.tr), life)
			}
			expiredDecisions++
			c.Label("inbound/dropped-expired")
		default:
			c.Label("inbound/grey-zone")
		}
		if pok {
			if pg != probe || pfrom.String() != srvAddr[sv].String() {
				t.Fatalf("C03: forwarded inbound datagram shows payload %q source %s, sent was %q from %s", pg, pfrom, probe, srvAddr[sv])
			}
		}
	}

	steps := rapid.IntRange(4, 24).Draw(t, "steps")
	for i := 0; i < steps && !abandoned; i++ {
		op := rapid.IntRange(0, 9).Draw(t, "op")
		switch {
		case op < 3 || len(learned) == 0:
			outbound(rapid.IntRange(0, len(clients)-1).Draw(t, "cl"), rapid.IntRange(0, len(servers)-1).Draw(t, "sv"))
		case op < 6:
			inbound(rapid.IntRange(0, len(servers)-1).Draw(t, "sv"), learned[rapid.IntRange(0, len(learned)-1).Draw(t, "m")])
		case op < 8:
			d := rapid.SampledFrom([]time.Duration{life / 6, life / 2, life * 2 / 3}).Draw(t, "pause")
			time.Sleep(d)
			c.Op("pause %v", d)
		default:
			// past the lifetime of everything
			var latest time.Time
			for _, m := range learned {
				if m.tr.After(latest) {
					latest = m.tr
				}
			}
			time.Sleep(time.Until(latest.Add(life + time.Millisecond)))
			c.Op("pause long")
			c.Label("pause/past-lifetime")
		}
	}
	if !abandoned && expiredDecisions > 0 && liveReuse > 0 {
		c.NonTrivial()
	}
	_ = focus
}

func udpAddr(s string) *net.UDPAddr {
	a, err := net.ResolveUDPAddr("udp", s)
	if err != nil {
		panic(err)
	}
	return a
}

func TestC02ExpiryE2E(t *testing.T) {
	r := ev.New("C02", "expiry-e2e", ruleNATExpiry)
	r.Essential = []string{"mapping/reused-live", "mapping/recreated-after-expiry", "inbound/dropped-expired", "inbound/forwarded-live"}
	r.MinForEssential = 25
	r.Check(t, func(t *rapid.T, c *ev.Case) { runNATExpiry(t, c, "C02") })
}

func TestC03ExpiryE2E(t *testing.T) {
	r := ev.New("C03", "expiry-e2e", ruleNATExpiry)
	r.Essential = []string{"inbound/refused-filter", "inbound/dropped-expired", "inbound/forwarded-live"}
	r.MinForEssential = 25
	r.Check(t, func(t *rapid.T, c *ev.Case) { runNATExpiry(t, c, "C03") })
}
