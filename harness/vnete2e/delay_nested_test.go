package vnete2e

import (
	"encoding/binary"
	"fmt"
	"net"
	"sync"
	"testing"
	"time"

	"github.com/pion/transport/v3/vnet"
	"pgregory.net/rapid"

	"verifharness/ev"
)

const ruleC14Nested = "two routers with their own MinDelay on one path (WAN router and a child LAN router behind its NAT; delays drawn independently from {0, 1 ms, 5 ms, 20 ms}); 1..20 datagrams LAN host -> WAN host in drawn bursts and gaps, each answered by the WAN host to the translated source it saw; a pass-through chunk filter on each router records when that router forwards a datagram; oracle per datagram and direction: the first router on the path forwards it no sooner than its MinDelay after the datagram was written, the second router no sooner than its own MinDelay after the first one forwarded it (so the delay of one hop can not be paid with time spent in another), the receiver gets it no sooner than the sum; every datagram arrives exactly once, unmodified, in per-direction order; non-trivial = both routers delay and >= 5 datagrams; distinct by hash of delays + plan"

func TestC14NestedDelay(t *testing.T) {
	r := ev.New("C14", "nested-router-delay", ruleC14Nested)
	r.Essential = []string{"both-delay"}
	r.MinForEssential = 30
	r.Assume("real clock: lower bounds only; a slow machine can only make them more true")
	r.Check(t, func(t *rapid.T, c *ev.Case) {
		ds := []time.Duration{0, time.Millisecond, 5 * time.Millisecond, 20 * time.Millisecond}
		dWan := rapid.SampledFrom(ds).Draw(t, "wanDelay")
		dLan := rapid.SampledFrom(ds).Draw(t, "lanDelay")
		n := rapid.IntRange(1, 20).Draw(t, "n")
		gaps := make([]int, n)
		for i := range gaps {
			gaps[i] = rapid.IntRange(0, 4).Draw(t, "gap")
		}
		c.Op("wan %v lan %v gaps %v", dWan, dLan, gaps)
		if dWan > 0 && dLan > 0 {
			c.Label("both-delay")
			if n >= 5 {
				c.NonTrivial()
			}
		}
		lf := quietLogger()
		wan, err := vnet.NewRouter(&vnet.RouterConfig{CIDR: "27.0.0.0/8", MinDelay: dWan, LoggerFactory: lf})
		if err != nil {
			t.Fatal(err)
		}
		lan, err := vnet.NewRouter(&vnet.RouterConfig{CIDR: "192.168.0.0/24", StaticIPs: []string{"27.0.0.1"}, MinDelay: dLan, LoggerFactory: lf,
			NATType: &vnet.NATType{MappingBehavior: vnet.EndpointIndependent, FilteringBehavior: vnet.EndpointIndependent, MappingLifeTime: time.Hour}})
		if err != nil {
			t.Fatal(err)
		}
		wh, _ := vnet.NewNet(&vnet.NetConfig{StaticIPs: []string{"27.0.0.50"}})
		lh, _ := vnet.NewNet(&vnet.NetConfig{StaticIPs: []string{"192.168.0.10"}})
		// per-router forwarding log: key = direction<<32 | index
		var mu sync.Mutex
		fwd := map[string]map[uint64]time.Time{"wan": {}, "lan": {}}
		probe := func(name string) func(vnet.Chunk) bool {
			return func(ch vnet.Chunk) bool {
				at := time.Now()
				p := ch.UserData()
				if len(p) >= 8 {
					k := uint64(binary.BigEndian.Uint32(p))<<32 | uint64(binary.BigEndian.Uint32(p[4:]))
					mu.Lock()
					if _, dup := fwd[name][k]; !dup {
						fwd[name][k] = at
					}
					mu.Unlock()
				}
				return true
			}
		}
		wan.AddChunkFilter(probe("wan"))
		lan.AddChunkFilter(probe("lan"))
		for _, e := range []error{wan.AddNet(wh), lan.AddNet(lh), wan.AddRouter(lan), wan.Start()} {
			if e != nil {
				t.Fatal(e)
			}
		}
		defer wan.Stop() //nolint:errcheck
		srv, err := wh.ListenUDP("udp", &net.UDPAddr{IP: net.ParseIP("27.0.0.50"), Port: 9000})
		if err != nil {
			t.Fatal(err)
		}
		defer srv.Close() //nolint:errcheck
		cli, err := lh.ListenUDP("udp", &net.UDPAddr{IP: net.ParseIP("192.168.0.10"), Port: 4000})
		if err != nil {
			t.Fatal(err)
		}
		defer cli.Close() //nolint:errcheck
		sum := dWan + dLan
		wait := sum + 3*time.Second
		mk := func(dir, i int) []byte {
			p := make([]byte, 8+i%40)
			binary.BigEndian.PutUint32(p, uint32(dir))
			binary.BigEndian.PutUint32(p[4:], uint32(i))
			for j := 8; j < len(p); j++ {
				p[j] = byte(dir*31 + i*7 + j)
			}
			return p
		}
		wrote := [2][]time.Time{make([]time.Time, n), make([]time.Time, n)}
		got := [2][]time.Time{make([]time.Time, n), make([]time.Time, n)}
		var wg sync.WaitGroup
		var failMsg string
		failf := func(f string, a ...any) {
			mu.Lock()
			if failMsg == "" {
				failMsg = fmt.Sprintf(f, a...)
			}
			mu.Unlock()
		}
		// the WAN host answers every request to the source it saw
		wg.Add(1)
		go func() {
			defer wg.Done()
			buf := make([]byte, 200)
			for k := 0; k < n; k++ {
				_ = srv.SetReadDeadline(time.Now().Add(wait))
				m, from, err := srv.ReadFrom(buf)
				at := time.Now()
				if err != nil {
					failf("C14: request %d of %d never reached the WAN host through two routers (MinDelay %v and %v): %v", k, n, dLan, dWan, err)
					return
				}
				i := int(binary.BigEndian.Uint32(buf[4:]))
				if m < 8 || binary.BigEndian.Uint32(buf) != 0 || i != k || string(buf[:m]) != string(mk(0, k)) {
					failf("C14: the WAN host received datagram (%d bytes, index %d) where request %d was due: reordered, duplicated or modified", m, i, k)
					return
				}
				got[0][k] = at
				wrote[1][k] = time.Now()
				if _, err := srv.WriteTo(mk(1, k), from); err != nil {
					failf("C14: reply write: %v", err)
					return
				}
			}
		}()
		wg.Add(1)
		go func() {
			defer wg.Done()
			buf := make([]byte, 200)
			for k := 0; k < n; k++ {
				_ = cli.SetReadDeadline(time.Now().Add(2*wait + time.Duration(n)*sum))
				m, _, err := cli.ReadFrom(buf)
				at := time.Now()
				if err != nil {
					failf("C14: reply %d of %d never reached the LAN host: %v", k, n, err)
					return
				}
				if m < 8 || binary.BigEndian.Uint32(buf) != 1 || int(binary.BigEndian.Uint32(buf[4:])) != k || string(buf[:m]) != string(mk(1, k)) {
					failf("C14: the LAN host received a datagram (%d bytes) where reply %d was due: reordered, duplicated or modified", m, k)
					return
				}
				got[1][k] = at
			}
		}()
		dst := &net.UDPAddr{IP: net.ParseIP("27.0.0.50"), Port: 9000}
		for i := 0; i < n; i++ {
			wrote[0][i] = time.Now()
			if _, err := cli.WriteTo(mk(0, i), dst); err != nil {
				t.Fatalf("C14: request write: %v", err)
			}
			switch gaps[i] {
			case 2:
				time.Sleep(sum / 4)
			case 3:
				time.Sleep(sum / 2)
			case 4:
				time.Sleep(sum + time.Millisecond)
			}
		}
		wg.Wait()
		if failMsg != "" {
			t.Fatalf("%s", failMsg)
		}
		mu.Lock()
		defer mu.Unlock()
		for dir := 0; dir < 2; dir++ {
			first, second, d1, d2 := "lan", "wan", dLan, dWan
			if dir == 1 {
				first, second, d1, d2 = "wan", "lan", dWan, dLan
			}
			for i := 0; i < n; i++ {
				k := uint64(dir)<<32 | uint64(i)
				f1, ok1 := fwd[first][k]
				f2, ok2 := fwd[second][k]
				if !ok1 || !ok2 {
					t.Fatalf("C14: datagram %d of direction %d arrived but router %s/%s never forwarded it", i, dir, first, second)
				}
				if d := f1.Sub(wrote[dir][i]); d < d1 {
					t.Fatalf("C14: the %s router forwarded datagram %d (direction %d) %v after it was written, sooner than its MinDelay %v", first, i, dir, d, d1)
				}
				if d := f2.Sub(f1); d < d2 {
					t.Fatalf("C14: the %s router forwarded datagram %d (direction %d) %v after the %s router had handed it over, sooner than its MinDelay %v (the other router's is %v)", second, i, dir, d, first, d2, d1)
				}
				if d := got[dir][i].Sub(wrote[dir][i]); d < sum {
					t.Fatalf("C14: datagram %d (direction %d) arrived %v after it was written; the two routers on its path delay by %v + %v", i, dir, d, d1, d2)
				}
			}
		}
		c.Count("datagrams", int64(2*n))
	})
}
