package vnete2e

import (
	"encoding/binary"
	"fmt"
	"net"
	"sync"
	"testing"
	"time"

	"github.com/pion/transport/v3/vnet"
	"pgregory.net/rapid"

	"verifharness/ev"
)

const ruleC14Router = "end-to-end through the public API: one router with MinDelay from {0,1ms,10ms} and MaxJitter from {0,2ms}, 2 hosts, 1..3 sending sockets on one host and one receiving socket on the other; each sender writes 1..25 tagged datagrams with rapid-drawn spacing (0, MinDelay/2, MinDelay, 2*MinDelay); in half of the cases a pass-through chunk filter makes the forwarding loop slow (0.6..1.6 x MinDelay on every 2nd or 3rd datagram); oracle: ReadFrom returns each datagram no sooner than MinDelay after its WriteTo was started (monotonic clock), exactly once, unmodified, per-sender order preserved, all within MinDelay + 3 s; non-trivial = MinDelay > 0 and >= 10 datagrams; distinct by hash of the plan"

func TestC14RouterDelay(t *testing.T) {
	r := ev.New("C14", "router-delay-e2e", ruleC14Router)
	r.Check(t, func(t *rapid.T, c *ev.Case) {
		minDelay := rapid.SampledFrom([]time.Duration{0, time.Millisecond, 10 * time.Millisecond}).Draw(t, "minDelay")
		jitter := rapid.SampledFrom([]time.Duration{0, 0, 2 * time.Millisecond}).Draw(t, "jitter")
		ns := rapid.IntRange(1, 3).Draw(t, "senders")
		type step struct{ size, gap int }
		plans := make([][]step, ns)
		total := 0
		for s := range plans {
			n := rapid.IntRange(1, 25).Draw(t, "n")
			for i := 0; i < n; i++ {
				plans[s] = append(plans[s], step{rapid.IntRange(8, 1200).Draw(t, "size"), rapid.IntRange(0, 5).Draw(t, "gap")})
			}
			if s == 0 && rapid.Bool().Draw(t, "tail") {
				// a tail whose datagrams become due while the loop is busy with their predecessor
				plans[s] = append(plans[s], step{100, 6}, step{100, 7}, step{100, 0})
				n += 3
			}
			total += n
			c.Op("sender %d: %v", s, plans[s])
		}
		c.Set("minDelay", minDelay.String())
		c.Set("jitter", jitter.String())
		c.Labelf("minDelay/%v", minDelay)
		c.Labelf("jitter/%v", jitter)
		if minDelay > 0 && total >= 10 {
			c.NonTrivial()
		}
		lf := quietLogger()
		wan, err := vnet.NewRouter(&vnet.RouterConfig{CIDR: "10.0.0.0/24", MinDelay: minDelay, MaxJitter: jitter, LoggerFactory: lf})
		if err != nil {
			t.Fatal(err)
		}
		// a slow consumer inside the forwarding loop: a pass-through chunk filter that takes
		// 0.6..1.6 x MinDelay on every k-th datagram, so that later datagrams become due while
		// the loop is busy
		slowEvery := rapid.SampledFrom([]int{0, 0, 1, 1, 2, 3}).Draw(t, "slowEvery")
		slow := time.Duration(float64(minDelay) * float64(rapid.IntRange(6, 16).Draw(t, "slowx")) / 10)
		if minDelay == 0 {
			slow = time.Duration(rapid.IntRange(0, 300).Draw(t, "slowus")) * time.Microsecond
		}
		if slowEvery > 0 {
			c.Label("slow-consumer")
			c.Set("slow", fmt.Sprintf("every %d: %v", slowEvery, slow))
			nth := 0
			wan.AddChunkFilter(func(vnet.Chunk) bool {
				nth++
				if nth%slowEvery == 0 {
					time.Sleep(slow)
				}
				return true
			})
		}
		a, _ := vnet.NewNet(&vnet.NetConfig{StaticIPs: []string{"10.0.0.2"}})
		b, _ := vnet.NewNet(&vnet.NetConfig{StaticIPs: []string{"10.0.0.3"}})
		if err = wan.AddNet(a); err != nil {
			t.Fatal(err)
		}
		if err = wan.AddNet(b); err != nil {
			t.Fatal(err)
		}
		if err = wan.Start(); err != nil {
			t.Fatal(err)
		}
		defer wan.Stop() //nolint:errcheck
		rcv, err := b.ListenUDP("udp", &net.UDPAddr{IP: net.ParseIP("10.0.0.3"), Port: 7000})
		if err != nil {
			t.Fatal(err)
		}
		defer rcv.Close() //nolint:errcheck
		dst := &net.UDPAddr{IP: net.ParseIP("10.0.0.3"), Port: 7000}
		before := make([][]time.Time, ns)
		var wg sync.WaitGroup
		for s := range plans {
			before[s] = make([]time.Time, len(plans[s]))
			conn, err := a.ListenUDP("udp", &net.UDPAddr{IP: net.ParseIP("10.0.0.2"), Port: 6000 + s})
			if err != nil {
				t.Fatal(err)
			}
			defer conn.Close() //nolint:errcheck
			wg.Add(1)
			go func(s int) {
				defer wg.Done()
				for i, st := range plans[s] {
					p := make([]byte, st.size)
					binary.BigEndian.PutUint32(p, uint32(s))
					binary.BigEndian.PutUint32(p[4:], uint32(i))
					before[s][i] = time.Now()
					if _, err := conn.WriteTo(p, dst); err != nil {
						return
					}
					switch st.gap {
					case 3:
						time.Sleep(minDelay / 2)
					case 4:
						time.Sleep(minDelay)
					case 5:
						time.Sleep(2 * minDelay)
					case 6:
						time.Sleep(minDelay / 4)
					case 7:
						time.Sleep(minDelay * 7 / 4)
					}
				}
			}(s)
		}
		// a quarter of the cases restart the router right after the last datagram was
		// written: what is still waiting out its delay must be forwarded by the new loop
		restartErr := make(chan error, 1)
		restarted := false
		if rapid.IntRange(0, 3).Draw(t, "restart") == 0 {
			restarted = true
			c.Label("restart-with-queued")
			go func() {
				wg.Wait()
				if err := wan.Stop(); err != nil {
					restartErr <- err
					return
				}
				restartErr <- wan.Start()
			}()
		} else {
			restartErr <- nil
		}
		type rec struct {
			s, i int
			at   time.Time
			n    int
			from string
		}
		var got []rec
		buf := make([]byte, 1500)
		_ = rcv.SetReadDeadline(time.Now().Add(minDelay + 3*time.Second + time.Duration(total)*(jitter+minDelay+slow)))
		for len(got) < total {
			n, from, err := rcv.ReadFrom(buf)
			at := time.Now()
			if err != nil {
				wg.Wait()
				t.Fatalf("C14: only %d of %d datagrams arrived through a router with MinDelay %v, MaxJitter %v: %v", len(got), total, minDelay, jitter, err)
			}
			if n < 8 {
				t.Fatalf("C14: a %d-byte datagram arrived, none was sent", n)
			}
			got = append(got, rec{int(binary.BigEndian.Uint32(buf)), int(binary.BigEndian.Uint32(buf[4:])), at, n, from.String()})
		}
		wg.Wait()
		if err := <-restartErr; err != nil {
			t.Fatalf("C14: Stop/Start of the router: %v", err)
		}
		// nothing more may arrive
		_ = rcv.SetReadDeadline(time.Now().Add(minDelay + jitter + 3*time.Millisecond))
		if n, _, err := rcv.ReadFrom(buf); err == nil {
			t.Fatalf("C14: an extra %d-byte datagram arrived after all %d were received (duplicate)", n, total)
		}
		last := map[int]int{}
		seen := map[[2]int]bool{}
		for _, g := range got {
			if g.s >= ns || g.i >= len(plans[g.s]) || g.n != plans[g.s][g.i].size {
				t.Fatalf("C14: received a datagram that was never sent or has the wrong length (%d,%d,%d bytes)", g.s, g.i, g.n)
			}
			k := [2]int{g.s, g.i}
			if seen[k] {
				t.Fatalf("C14: datagram %v arrived twice", k)
			}
			seen[k] = true
			// Stop does not wait for the forwarding loop it cancels, so right after a restart the
			// old and the new loop can both be forwarding; the statement orders datagrams of a
			// running router and says nothing about a restart, so order is not judged there
			if l, ok := last[g.s]; ok && g.i < l && !restarted {
				t.Fatalf("C14: sender %d's datagram %d arrived after its datagram %d (MinDelay %v, MaxJitter %v)", g.s, g.i, l, minDelay, jitter)
			}
			last[g.s] = g.i
			if want := fmt.Sprintf("10.0.0.2:%d", 6000+g.s); g.from != want {
				t.Fatalf("C14: datagram %v shows source %s, want %s", k, g.from, want)
			}
			if d := g.at.Sub(before[g.s][g.i]); d < minDelay {
				t.Fatalf("C14: datagram %v left the router %v after it was written, sooner than MinDelay %v", k, d, minDelay)
			}
		}
		c.Count("datagrams", int64(total))
	})
}
