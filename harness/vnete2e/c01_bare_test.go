//go:build verifsched

package vnete2e

import (
	"encoding/binary"
	"fmt"
	"net"
	"strings"
	"testing"
	"time"

	"github.com/pion/transport/v3/vnet"
	"pgregory.net/rapid"

	"verifharness/ev"
	"verifharness/sched"
)

const ruleC01Bare = "controlled-schedule variant without any chunk filter (the other C01 units observe every router through a pass-through filter, which is itself a configuration): root router with two hosts, behind it a LAN router with an endpoint-independent NAPT and two hosts, one socket per host; the two LAN sockets open their mappings in a free-running phase; then the routers are stopped and re-started by a scheduler task and 2..6 of the flows WAN->LAN (inbound through the mapping), LAN->WAN (outbound), LAN->LAN and WAN->WAN are written concurrently by one sender task each (1..4 numbered datagrams), under a rapid-drawn schedule over every lock/channel/select operation of the yield-instrumented vnet files (half of the cases with a drawn shape instead: the other senders first, the first datagram of an inbound flow, a drawn number of steps of the router loops - or as many as it takes the LAN router to empty its queue, and 0..10 more -, the rest of that flow, then drawn order); at quiescence every socket is read empty; oracle per flow: exactly the written datagrams, in order, once, byte-identical, on the destination socket only, showing the (translated) source established before; non-trivial = an inbound and an outbound flow through the LAN router run concurrently; distinct by hash of plan + step trace"

// TestC01BareSchedules runs routers exactly as an application that configures no filter has
// them: code paths that depend on "no chunk filter installed" are reachable only here.
func TestC01BareSchedules(t *testing.T) {
	r := ev.New("C01", "bare-schedules", ruleC01Bare)
	r.Essential = []string{"flow/wan->lan", "flow/lan->wan", "flow/lan->lan", "flow/wan->wan"}
	r.MinForEssential = 40
	r.Assume("yield granularity = synchronisation operations of vnet/router.go, net.go, conn.go, conn_map.go, chunk_queue.go and nat.go")
	r.Check(t, func(t *rapid.T, c *ev.Case) {
		lf := quietLogger()
		wan, err := vnet.NewRouter(&vnet.RouterConfig{CIDR: "27.0.0.0/8", LoggerFactory: lf})
		if err != nil {
			t.Fatalf("VERIF-INFRA: %v", err)
		}
		lan, err := vnet.NewRouter(&vnet.RouterConfig{
			CIDR: "192.168.0.0/24", StaticIPs: []string{"27.0.0.1"}, LoggerFactory: lf,
			NATType: &vnet.NATType{MappingBehavior: vnet.EndpointIndependent, FilteringBehavior: vnet.EndpointIndependent, MappingLifeTime: time.Hour},
		})
		if err != nil {
			t.Fatalf("VERIF-INFRA: %v", err)
		}
		mk := func(ip string) *vnet.Net {
			n, err := vnet.NewNet(&vnet.NetConfig{StaticIPs: []string{ip}})
			if err != nil {
				t.Fatalf("VERIF-INFRA: %v", err)
			}
			return n
		}
		hW1, hW2, hL1, hL2 := mk("27.0.0.50"), mk("27.0.0.51"), mk("192.168.0.10"), mk("192.168.0.11")
		for _, e := range []error{wan.AddNet(hW1), wan.AddNet(hW2), lan.AddNet(hL1), lan.AddNet(hL2), wan.AddRouter(lan), wan.Start()} {
			if e != nil {
				t.Fatalf("VERIF-INFRA: %v", e)
			}
		}
		stopped := false
		defer func() {
			if !stopped {
				_ = wan.Stop()
			}
		}()
		listen := func(n *vnet.Net, ip string, port int) net.PacketConn {
			cn, err := n.ListenUDP("udp", &net.UDPAddr{IP: net.ParseIP(ip), Port: port})
			if err != nil {
				t.Fatalf("VERIF-INFRA: %v", err)
			}
			return cn
		}
		// sockets: 0 = W1, 1 = W2, 2 = L1, 3 = L2
		socks := []net.PacketConn{listen(hW1, "27.0.0.50", 9000), listen(hW2, "27.0.0.51", 9000), listen(hL1, "192.168.0.10", 4000), listen(hL2, "192.168.0.11", 4000)}
		addrs := []*net.UDPAddr{{IP: net.ParseIP("27.0.0.50"), Port: 9000}, {IP: net.ParseIP("27.0.0.51"), Port: 9000}, {IP: net.ParseIP("192.168.0.10"), Port: 4000}, {IP: net.ParseIP("192.168.0.11"), Port: 4000}}
		defer func() {
			for _, s := range socks {
				_ = s.Close()
			}
		}()
		// free-running: the LAN sockets open their mappings (endpoint-independent: one external
		// address each, open to every remote)
		ext := map[int]*net.UDPAddr{}
		for _, l := range []int{2, 3} {
			if _, err := socks[l].WriteTo([]byte("open"), addrs[0]); err != nil {
				t.Fatalf("C01: write failed: %v", err)
			}
			buf := make([]byte, 64)
			_ = socks[0].SetReadDeadline(time.Now().Add(3 * time.Second))
			n, from, err := socks[0].ReadFrom(buf)
			if err != nil || string(buf[:n]) != "open" {
				t.Fatalf("C01: the first outbound datagram of LAN socket %d did not reach %s (%q, %v)", l, addrs[0], buf[:n], err)
			}
			ext[l] = from.(*net.UDPAddr)
		}
		if ext[2].String() == ext[3].String() {
			t.Fatalf("C02: two internal sockets share the external address %s", ext[2])
		}
		type flowPlan struct {
			name     string
			from, to int
			dst      *net.UDPAddr // where the sender writes to
			shows    string       // the source the receiver must see
			n        int
		}
		all := []flowPlan{
			{"wan->lan", 0, 2, ext[2], addrs[0].String(), 0},
			{"lan->wan", 2, 0, addrs[0], ext[2].String(), 0},
			{"lan->wan", 3, 1, addrs[1], ext[3].String(), 0},
			{"wan->lan", 1, 3, ext[3], addrs[1].String(), 0},
			{"lan->lan", 2, 3, addrs[3], addrs[2].String(), 0},
			{"wan->wan", 0, 1, addrs[1], addrs[0].String(), 0},
			{"wan->lan", 1, 2, ext[2], addrs[1].String(), 0},
		}
		var flows []flowPlan
		focus := rapid.IntRange(0, 1).Draw(t, "focus") == 0
		for i, f := range all {
			take := rapid.IntRange(0, 9).Draw(t, "take") < 6
			if focus { // one inbound flow against outbound traffic of the same LAN
				take = i == 0 || i == 2 || (i == 1 && rapid.Bool().Draw(t, "alsoOwnOutbound"))
			}
			if take {
				f.n = rapid.IntRange(1, 4).Draw(t, "n")
				if focus && i == 0 {
					f.n = rapid.IntRange(2, 4).Draw(t, "n0")
				}
				flows = append(flows, f)
				c.Label("flow/" + f.name)
			}
		}
		if len(flows) < 2 {
			flows = append(flows[:0], all[0], all[2])
			flows[0].n, flows[1].n = 3, 2
			c.Label("flow/wan->lan")
			c.Label("flow/lan->wan")
		}
		in, out := false, false
		for _, f := range flows {
			in = in || f.name == "wan->lan"
			out = out || f.name == "lan->wan"
		}
		if in && out {
			c.NonTrivial()
		}
		plan := ""
		for _, f := range flows {
			plan += fmt.Sprintf("%s s%d>s%d x%d; ", f.name, f.from, f.to, f.n)
		}
		c.Set("plan", plan)
		rc := sched.NewRapidChooser(t)
		c.Label("strategy/" + sched.StrategyNames[rc.Strategy])

		// ---- controlled phase
		if err := wan.Stop(); err != nil {
			t.Fatalf("Stop: %v", err)
		}
		stopped = true
		s := sched.New()
		s.MaxSteps = 8000
		s.QuiesceGap = 500 * time.Microsecond
		vnet.VerifSetHooks(&vnet.VerifHooks{Yield: s.Yield, Spawn: s.Spawn, Adopt: s.Adopt, Retire: s.Retire})
		over := false
		end := func() {
			if !over {
				over = true
				s.Abort()
			}
		}
		defer func() {
			end()
			_ = wan.Stop()
			for _, sk := range socks {
				_ = sk.Close()
			}
			s.Drain(2 * time.Second)
			vnet.VerifSetHooks(nil)
		}()
		payload := func(fi, k int) []byte {
			p := make([]byte, 12+(fi*13+k*29)%200)
			copy(p, "BARE")
			binary.BigEndian.PutUint32(p[4:], uint32(fi))
			binary.BigEndian.PutUint32(p[8:], uint32(k))
			for i := 12; i < len(p); i++ {
				p[i] = byte(fi*7 + k*3 + i)
			}
			return p
		}
		started := make(chan struct{})
		s.Go("starter", func() {
			if err := wan.Start(); err != nil {
				panic(err)
			}
			close(started)
		})
		for fi, f := range flows {
			fi, f := fi, f
			s.Go(fmt.Sprintf("sender%d", fi), func() {
				<-started
				for k := 0; k < f.n; k++ {
					if k > 0 {
						s.Yield("between-datagrams")
					}
					p := payload(fi, k)
					_, _ = socks[f.from].WriteTo(p, f.dst)
					for i := range p {
						p[i] = 0xDD
					}
				}
			})
		}
		// In the focus cases the schedule has a drawn shape rather than drawn steps: the other
		// senders write first (their datagrams wait in the LAN router), sender 0 writes its first
		// datagram, the router loops advance a drawn number of steps - somewhere between taking
		// datagrams off the queue and having handed them over -, sender 0 writes the rest, then
		// everybody runs in drawn order. "A datagram is in a router's hands when the next one of
		// its flow arrives" is the situation per-flow order has to survive.
		phase, loopSteps, untilEmpty := 5, 0, false
		if focus {
			phase = 0
			loopSteps = rapid.IntRange(0, 60).Draw(t, "loopSteps")
			if untilEmpty = rapid.Bool().Draw(t, "untilQueueEmpty"); untilEmpty {
				loopSteps = rapid.IntRange(0, 10).Draw(t, "stepsAfterEmpty")
			}
			c.Label("shape/loop-mid-handover")
		}
		pickNamed := func(en []*sched.Task, ok func(*sched.Task) bool) *sched.Task {
			for _, tk := range en {
				if ok(tk) {
					return tk
				}
			}
			return nil
		}
		shaped := func(ss *sched.Session, en []*sched.Task) *sched.Task {
			for {
				var p *sched.Task
				switch phase {
				case 0:
					p = pickNamed(en, func(tk *sched.Task) bool { return tk.Name == "starter" })
				case 1:
					p = pickNamed(en, func(tk *sched.Task) bool { return strings.HasPrefix(tk.Name, "sender") && tk.Name != "sender0" })
				case 2:
					p = pickNamed(en, func(tk *sched.Task) bool { return tk.Name == "sender0" && tk.Label() != "between-datagrams" })
				case 3:
					// the router loops run until the LAN router has taken everything off its
					// queue (the datagram of sender 0 last), and a drawn number of steps more
					if untilEmpty && lan.VerifQueueLen() > 0 {
						p = pickNamed(en, func(tk *sched.Task) bool { return tk.Adopted })
					} else if loopSteps > 0 {
						untilEmpty = false
						if p = pickNamed(en, func(tk *sched.Task) bool { return tk.Adopted }); p != nil {
							loopSteps--
						}
					}
				case 4:
					p = pickNamed(en, func(tk *sched.Task) bool { return tk.Name == "sender0" })
				default:
					return rc.Pick(ss, en)
				}
				if p != nil {
					return p
				}
				phase++
			}
		}
		var trace []string
		s.Run(chooserFn2(func(ss *sched.Session, en []*sched.Task) *sched.Task {
			p := shaped(ss, en)
			if p != nil {
				trace = append(trace, p.Name+"@"+p.Label())
			}
			return p
		}))
		for _, x := range trace {
			c.Op("%s", x)
		}
		if s.Discarded {
			c.Label("discarded/step-limit")
			return
		}
		for _, tk := range s.Tasks() {
			if p := tk.Panicked(); p != nil {
				t.Fatalf("C01: task %s panicked: %v", tk.Name, p)
			}
		}
		for _, tk := range s.BlockedTasks() {
			if strings.HasPrefix(tk.Name, "sender") || tk.Name == "starter" {
				st, fr := tk.WaitInfo()
				t.Fatalf("C01: %s is blocked in [%s] at %s\n%s", tk.Name, st, fr, s.Describe())
			}
		}
		desc := s.Describe()
		end() // the routers run free from here on; whatever is still queued is delivered
		// "nothing is on its way any more" is read off the routers, not off a clock: both
		// forwarding loops parked in their select and both queues empty, three times in a row
		quiet := func() bool {
			for pass := 0; pass < 3; pass++ {
				idle := 0
				for _, g := range sched.Snapshot() {
					for _, f := range g.Frames {
						if strings.Contains(f, "vnet.(*Router).Start.func1") && g.State == "select" {
							idle++
							break
						}
					}
				}
				ql, qw := lan.VerifQueueLen(), wan.VerifQueueLen()
				if ql < 0 || qw < 0 {
					time.Sleep(5 * time.Millisecond) // queue internals unreadable on this tree
					ql, qw = 0, 0
				}
				if idle < 2 || ql+qw > 0 {
					return false
				}
				time.Sleep(100 * time.Microsecond)
			}
			return true
		}
		next := make([]int, len(flows))
		giveUp := time.Now().Add(10 * time.Second)
		for si, sk := range socks {
			idle := 0
			for idle < 2 {
				buf := make([]byte, 1500)
				_ = sk.SetReadDeadline(time.Now().Add(3 * time.Millisecond))
				n, from, err := sk.ReadFrom(buf)
				if err != nil {
					done := true
					for fi, f := range flows {
						if f.to == si && next[fi] < f.n {
							done = false
						}
					}
					if done {
						break
					}
					if quiet() {
						idle++ // one more read after the network has come to rest, then it is missing
					} else {
						idle = 0
						if time.Now().After(giveUp) {
							t.Fatalf("VERIF-INFRA: the routers did not come to rest within 10 s")
						}
					}
					continue
				}
				idle = 0
				d := buf[:n]
				if n < 12 || string(d[:4]) != "BARE" {
					t.Fatalf("C01: socket s%d received a %d-byte datagram nobody sent in this phase", si, n)
				}
				fi, k := int(binary.BigEndian.Uint32(d[4:])), int(binary.BigEndian.Uint32(d[8:]))
				if fi >= len(flows) || k >= flows[fi].n || string(d) != string(payload(fi, k)) {
					t.Fatalf("C01: socket s%d received a datagram that differs from everything written (flow %d, number %d, %d bytes)", si, fi, k, n)
				}
				f := flows[fi]
				if f.to != si {
					t.Fatalf("C01: datagram %d of flow %s s%d -> %s was delivered to socket s%d instead of s%d", k, f.name, f.from, f.dst, si, f.to)
				}
				if from.String() != f.shows {
					t.Fatalf("C01: datagram %d of flow %s s%d -> %s shows source %s, the established (translated) source is %s", k, f.name, f.from, f.dst, from, f.shows)
				}
				if k != next[fi] {
					t.Fatalf("C01: flow %s s%d -> %s: datagram %d arrived where datagram %d was due (out of order, duplicated or lost)\n%s", f.name, f.from, f.dst, k, next[fi], desc)
				}
				next[fi]++
			}
		}
		for fi, f := range flows {
			if next[fi] != f.n {
				t.Fatalf("C01: flow %s s%d -> %s: %d datagrams written, %d delivered although the routers are started, no queue is near its capacity and no filter is configured\n%s", f.name, f.from, f.dst, f.n, next[fi], desc)
			}
		}
		c.Count("schedules", 1)
		c.Count("steps", int64(s.Steps()))
	})
}
