package vnete2e

import (
	"encoding/binary"
	"net"
	"sync/atomic"
	"testing"
	"time"

	"github.com/pion/transport/v3/vnet"
	"pgregory.net/rapid"

	"verifharness/ev"
)

const ruleC01Queue = "a router with a bounded queue (QueueSize 4..32) and MinDelay 1..3 ms between two hosts; one sender writes 2..4 x QueueSize datagrams, each only after it has made sure that fewer than QueueSize-2 of its datagrams are still inside the router (written minus seen by a pass-through chunk filter, an upper bound of the queue's occupancy that does not depend on the router's internals), paced so that the queue rarely runs empty; oracle: the queue was below its capacity at every write, so every datagram must arrive, once, unmodified, in order; non-trivial = more datagrams passed than the queue holds; distinct by hash of the parameters"

func TestC01QueueCapacity(t *testing.T) {
	r := ev.New("C01", "bounded-queue", ruleC01Queue)
	r.Check(t, func(t *rapid.T, c *ev.Case) {
		q := rapid.IntRange(4, 32).Draw(t, "queueSize")
		minDelay := time.Duration(rapid.IntRange(1, 3).Draw(t, "minDelayMs")) * time.Millisecond
		total := q * rapid.IntRange(2, 4).Draw(t, "rounds")
		keep := rapid.IntRange(1, q-3).Draw(t, "keepInside") // the sender tries to keep this many inside
		c.Op("queue %d minDelay %v total %d keep %d", q, minDelay, total, keep)
		c.NonTrivial()
		lf := quietLogger()
		router, err := vnet.NewRouter(&vnet.RouterConfig{CIDR: "10.0.0.0/24", QueueSize: q, MinDelay: minDelay, LoggerFactory: lf})
		if err != nil {
			t.Fatal(err)
		}
		var seen atomic.Int64
		router.AddChunkFilter(func(vnet.Chunk) bool { seen.Add(1); return true })
		a, _ := vnet.NewNet(&vnet.NetConfig{StaticIPs: []string{"10.0.0.2"}})
		b, _ := vnet.NewNet(&vnet.NetConfig{StaticIPs: []string{"10.0.0.3"}})
		for _, e := range []error{router.AddNet(a), router.AddNet(b), router.Start()} {
			if e != nil {
				t.Fatal(e)
			}
		}
		defer router.Stop() //nolint:errcheck
		rcv, err := b.ListenUDP("udp", &net.UDPAddr{IP: net.ParseIP("10.0.0.3"), Port: 7000})
		if err != nil {
			t.Fatal(err)
		}
		defer rcv.Close() //nolint:errcheck
		snd, err := a.ListenUDP("udp", &net.UDPAddr{IP: net.ParseIP("10.0.0.2"), Port: 6000})
		if err != nil {
			t.Fatal(err)
		}
		defer snd.Close() //nolint:errcheck
		dst := &net.UDPAddr{IP: net.ParseIP("10.0.0.3"), Port: 7000}
		got := make(chan []byte, total+8)
		go func() {
			buf := make([]byte, 100)
			for {
				n, _, err := rcv.ReadFrom(buf)
				if err != nil {
					return
				}
				got <- append([]byte(nil), buf[:n]...)
			}
		}()
		for i := 0; i < total; i++ {
			// wait until the router certainly holds fewer than q-2 of our datagrams
			for limit := time.Now().Add(5 * time.Second); int64(i)-seen.Load() > int64(keep); {
				if time.Now().After(limit) {
					t.Fatalf("C01: the router (MinDelay %v) has forwarded %d of the %d datagrams written so far and then stopped forwarding for 5 s", minDelay, seen.Load(), i)
				}
				time.Sleep(50 * time.Microsecond)
			}
			p := make([]byte, 12)
			binary.BigEndian.PutUint32(p, uint32(i))
			binary.BigEndian.PutUint64(p[4:], uint64(i)*2654435761)
			if _, err := snd.WriteTo(p, dst); err != nil {
				t.Fatalf("C01: write %d: %v", i, err)
			}
			// staggered arrivals fall due one by one, so the queue does not run empty
			time.Sleep(minDelay / time.Duration(keep+1))
		}
		for i := 0; i < total; i++ {
			select {
			case p := <-got:
				if len(p) != 12 || int(binary.BigEndian.Uint32(p)) != i || binary.BigEndian.Uint64(p[4:]) != uint64(i)*2654435761 {
					t.Fatalf("C01: datagram %d of %d is missing, out of order or modified (received %x) although at most %d of the %d queue slots were in use at any write", i, total, p, keep+1, q)
				}
			case <-time.After(minDelay + 3*time.Second):
				t.Fatalf("C01: only %d of %d datagrams arrived through a router whose queue of %d never held more than %d of them: a datagram was dropped below capacity", i, total, q, keep+1)
			}
		}
		c.Count("datagrams", int64(total))
	})
}
