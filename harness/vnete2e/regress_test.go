// Package vnete2e holds the end-to-end (public API) checks of the virtual
// network: C01 and the end-to-end halves of C02, C03, C13, C14, C16.
package vnete2e

import (
	"fmt"
	"net"
	"testing"
	"time"

	"github.com/pion/logging"
	"github.com/pion/transport/v3/vnet"
)

func quietLogger() logging.LoggerFactory {
	lf := logging.NewDefaultLoggerFactory()
	lf.DefaultLogLevel = logging.LogLevelDisabled
	return lf
}

// C02-port-exhaustion (fixed by 491a888 + 1b2f344): after 16384 mappings
// the NAT handed out port 65536 and the resulting error ended the LAN
// router's forwarding goroutine for good.
func TestRegressC02_PortExhaustionE2E(t *testing.T) {
	lf := quietLogger()
	wan, err := vnet.NewRouter(&vnet.RouterConfig{CIDR: "27.0.0.0/8", LoggerFactory: lf})
	if err != nil {
		t.Fatal(err)
	}
	wanHost, _ := vnet.NewNet(&vnet.NetConfig{StaticIPs: []string{"27.0.0.50"}})
	if err = wan.AddNet(wanHost); err != nil {
		t.Fatal(err)
	}
	lan, err := vnet.NewRouter(&vnet.RouterConfig{
		CIDR: "192.168.0.0/24", StaticIPs: []string{"27.0.0.1"}, LoggerFactory: lf,
		NATType: &vnet.NATType{
			MappingBehavior: vnet.EndpointAddrPortDependent, FilteringBehavior: vnet.EndpointAddrPortDependent,
			MappingLifeTime: time.Hour,
		},
	})
	if err != nil {
		t.Fatal(err)
	}
	lanHost, _ := vnet.NewNet(&vnet.NetConfig{})
	if err = lan.AddNet(lanHost); err != nil {
		t.Fatal(err)
	}
	if err = wan.AddRouter(lan); err != nil {
		t.Fatal(err)
	}
	if err = wan.Start(); err != nil {
		t.Fatal(err)
	}
	defer wan.Stop() //nolint:errcheck
	srv, err := wanHost.ListenUDP("udp", &net.UDPAddr{IP: net.ParseIP("27.0.0.50"), Port: 9000})
	if err != nil {
		t.Fatal(err)
	}
	defer srv.Close() //nolint:errcheck
	cli, err := lanHost.ListenUDP("udp", &net.UDPAddr{IP: net.IPv4zero, Port: 4000})
	if err != nil {
		t.Fatal(err)
	}
	defer cli.Close() //nolint:errcheck
	// the first mapping is the one the final datagram will use again
	if _, err = cli.WriteTo([]byte("first"), &net.UDPAddr{IP: net.ParseIP("27.0.0.50"), Port: 9000}); err != nil {
		t.Fatal(err)
	}
	first := make([]byte, 16)
	_ = srv.SetReadDeadline(time.Now().Add(5 * time.Second))
	if _, _, err = srv.ReadFrom(first); err != nil {
		t.Fatalf("first datagram did not arrive: %v", err)
	}
	// more distinct destinations than there are ports in the dynamic range
	for i := 0; i < 16390; i++ {
		dst := &net.UDPAddr{IP: net.ParseIP("27.0.0.50"), Port: 10000 + i}
		if _, err = cli.WriteTo([]byte("x"), dst); err != nil {
			t.Fatalf("write %d: %v", i, err)
		}
		if i%512 == 511 {
			time.Sleep(2 * time.Millisecond) // keep the router queue short
		}
	}
	// the router must still forward
	got := make(chan string, 1)
	go func() {
		buf := make([]byte, 100)
		_ = srv.SetReadDeadline(time.Now().Add(5 * time.Second))
		n, from, err := srv.ReadFrom(buf)
		if err != nil {
			got <- "error: " + err.Error()
			return
		}
		got <- fmt.Sprintf("%s from %s", buf[:n], from)
	}()
	if _, err = cli.WriteTo([]byte("still-alive"), &net.UDPAddr{IP: net.ParseIP("27.0.0.50"), Port: 9000}); err != nil {
		t.Fatal(err)
	}
	if s := <-got; len(s) < 11 || s[:11] != "still-alive" {
		t.Fatalf("C02: after 16390 mappings through a symmetric NAT the LAN router no longer forwards: %s", s)
	}
}

// C13-auto-ip-collides-with-static (fixed by cb059c7).
func TestRegressC13_StaticThenAutomatic(t *testing.T) {
	lf := quietLogger()
	router, err := vnet.NewRouter(&vnet.RouterConfig{CIDR: "10.1.2.0/24", LoggerFactory: lf})
	if err != nil {
		t.Fatal(err)
	}
	a, _ := vnet.NewNet(&vnet.NetConfig{StaticIPs: []string{"10.1.2.1"}})
	b, _ := vnet.NewNet(&vnet.NetConfig{})
	if err = router.AddNet(a); err != nil {
		t.Fatal(err)
	}
	if err = router.AddNet(b); err != nil {
		t.Fatal(err)
	}
	ifc, _ := b.InterfaceByName("eth0")
	addrs, _ := ifc.Addrs()
	if len(addrs) != 1 {
		t.Fatalf("automatic host has %d addresses", len(addrs))
	}
	if ip := addrs[0].(*net.IPNet).IP.String(); ip == "10.1.2.1" {
		t.Fatalf("C13: the automatic host was assigned 10.1.2.1 which the static host already holds")
	}
}
