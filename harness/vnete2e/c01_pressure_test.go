package vnete2e

import (
	"fmt"
	"net"
	"testing"
	"time"

	"github.com/pion/transport/v3/vnet"
	"pgregory.net/rapid"

	"verifharness/ev"
)

const ruleC01Pressure = "C01 under port pressure: WAN router with an echo host, LAN router behind a symmetric NAPT (mapping lifetime 1 s) with two hosts; socket A gets a reply through its first mapping, a filler socket requests 16370..16400 further mappings (more than the 16384 ports of the dynamic range together with the rest), A stays silent past the lifetime, socket V (other host) is answered through a fresh mapping that may inherit an expired port, then A, V (and A again) exchange 1..4 further request/reply pairs in a drawn order; oracle (the statement's): every reply sent to the source the echo host saw, from the address the request went to, reaches the socket that sent the request, byte-identical, exactly once, and no other socket; non-trivial = the port counter wrapped before V's mapping was made; distinct by hash of the parameters"

func TestC01PortPressure(t *testing.T) {
	r := ev.New("C01", "nat-port-pressure", ruleC01Pressure)
	r.Assume("a request/reply round trip takes less than the mapping lifetime of 1 s (the requester's own outbound datagram has just refreshed or created the mapping the reply uses)")
	r.Check(t, func(t *rapid.T, c *ev.Case) {
		const life = time.Second
		fill := rapid.IntRange(16370, 16400).Draw(t, "fill")
		nMore := rapid.IntRange(1, 4).Draw(t, "more")
		order := make([]int, nMore)
		for i := range order {
			order[i] = rapid.IntRange(0, 1).Draw(t, "who")
		}
		order = append([]int{0, 1}, order...) // the old owner speaks again, then the heir
		c.Op("fill %d order %v", fill, order)
		if fill+2 > 16384 {
			c.Label("counter-wrapped")
			c.NonTrivial()
		}
		lf := quietLogger()
		wan, err := vnet.NewRouter(&vnet.RouterConfig{CIDR: "27.0.0.0/8", LoggerFactory: lf})
		if err != nil {
			t.Fatal(err)
		}
		lan, err := vnet.NewRouter(&vnet.RouterConfig{CIDR: "192.168.0.0/24", StaticIPs: []string{"27.0.0.1"}, LoggerFactory: lf,
			NATType: &vnet.NATType{MappingBehavior: vnet.EndpointAddrPortDependent, FilteringBehavior: vnet.EndpointAddrPortDependent, MappingLifeTime: life}})
		if err != nil {
			t.Fatal(err)
		}
		eh, _ := vnet.NewNet(&vnet.NetConfig{StaticIPs: []string{"27.0.0.50"}})
		ha, _ := vnet.NewNet(&vnet.NetConfig{StaticIPs: []string{"192.168.0.10"}})
		hb, _ := vnet.NewNet(&vnet.NetConfig{StaticIPs: []string{"192.168.0.20"}})
		for _, e := range []error{wan.AddNet(eh), lan.AddNet(ha), lan.AddNet(hb), wan.AddRouter(lan), wan.Start()} {
			if e != nil {
				t.Fatal(e)
			}
		}
		defer wan.Stop() //nolint:errcheck
		echoAddr := &net.UDPAddr{IP: net.ParseIP("27.0.0.50"), Port: 7000}
		echo, err := eh.ListenUDP("udp", echoAddr)
		if err != nil {
			t.Fatal(err)
		}
		defer echo.Close() //nolint:errcheck
		go func() {
			buf := make([]byte, 1500)
			for {
				n, from, err := echo.ReadFrom(buf)
				if err != nil {
					return
				}
				_, _ = echo.WriteTo(append([]byte("re:"), buf[:n]...), from)
			}
		}()
		mk := func(h *vnet.Net, ip string, port int) net.PacketConn {
			cn, err := h.ListenUDP("udp", &net.UDPAddr{IP: net.ParseIP(ip), Port: port})
			if err != nil {
				t.Fatal(err)
			}
			return cn
		}
		socks := []net.PacketConn{mk(ha, "192.168.0.10", 4000), mk(hb, "192.168.0.20", 4000)}
		filler := mk(hb, "192.168.0.20", 4001)
		defer func() {
			for _, s := range socks {
				_ = s.Close()
			}
			_ = filler.Close()
		}()
		names := []string{"A (192.168.0.10:4000)", "V (192.168.0.20:4000)"}
		seq := 0
		// ping: request from socket i, the reply must come back to it and to nobody else
		ping := func(i int, when string) {
			seq++
			msg := fmt.Sprintf("req-%d-from-%d", seq, i)
			if _, err := socks[i].WriteTo([]byte(msg), echoAddr); err != nil {
				t.Fatalf("C01: write: %v", err)
			}
			buf := make([]byte, 200)
			_ = socks[i].SetReadDeadline(time.Now().Add(3 * time.Second))
			n, from, err := socks[i].ReadFrom(buf)
			if err != nil {
				t.Fatalf("C01: %s: the reply to %q, sent by the echo host to the translated source it saw, never reached socket %s through the NAPT (%d mappings requested so far, lifetime %v): %v", when, msg, names[i], fill, life, err)
			}
			if string(buf[:n]) != "re:"+msg || from.String() != echoAddr.String() {
				t.Fatalf("C01: %s: socket %s received %q from %s, expected the reply %q from %s", when, names[i], buf[:n], from, "re:"+msg, echoAddr)
			}
			for j, o := range socks {
				if j == i {
					continue
				}
				_ = o.SetReadDeadline(time.Now().Add(2 * time.Millisecond))
				if n, from, err := o.ReadFrom(buf); err == nil {
					t.Fatalf("C01: %s: socket %s received %q from %s, a datagram addressed to the mapping of socket %s", when, names[j], buf[:n], from, names[i])
				}
			}
			c.Op("ping %d ok", i)
		}
		ping(0, "first exchange")
		lastA := time.Now()
		for k := 0; k < fill; k++ {
			if _, err := filler.WriteTo([]byte("fill"), &net.UDPAddr{IP: echoAddr.IP, Port: 10000 + k}); err != nil {
				t.Fatalf("fill write: %v", err)
			}
			if k%512 == 511 {
				time.Sleep(time.Millisecond) // keep the router queues short
			}
		}
		time.Sleep(time.Until(lastA.Add(life + 20*time.Millisecond)))
		ping(1, "after the port range has been used up and A's mapping has expired")
		for k, who := range order {
			ping(who, fmt.Sprintf("exchange %d after the wrap", k+1))
		}
	})
}
