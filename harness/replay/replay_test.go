package replay

import (
	"fmt"
	"testing"

	"github.com/pion/transport/v3/replaydetector"
	"pgregory.net/rapid"

	"verifharness/ev"
)

const maxSteps = 200

type detector interface {
	Check(seq uint64) (func() bool, bool)
}

func newDetector(wrapped bool, window uint, max uint64) (detector, Model) {
	if wrapped {
		return replaydetector.WithWrap(window, max), NewWrapped(window, max)
	}
	return replaydetector.New(window, max), NewPlain(window, max)
}

// history runs one generated history against detector and model.
// exact=false: C04 oracle only (never accept a replay / above max, no panic).
// exact=true: C05 oracle (both directions, latest flag, purity of Check).
func history(t *rapid.T, c *ev.Case, wrapped, exact bool) {
	window := genWindow(t)
	var max uint64
	if exact {
		max = genMaxDomain(t, window, wrapped)
	} else {
		max = genMaxWide(t, window, wrapped)
	}
	c.Set("detector", map[bool]string{false: "plain", true: "wrapping"}[wrapped])
	c.Set("window", window)
	c.Set("max", max)
	t.Logf("detector wrapped=%v window=%d max=%d", wrapped, window, max)

	var det detector
	var m Model
	ev.NoPanic(t, "constructor", func() { det, m = newDetector(wrapped, window, max) })
	wm, _ := m.(*Wrapped)

	acceptedAtShift := map[uint64]uint64{} // seq -> number of window moves when accepted
	var moves uint64
	pendingUnaccepted := false
	// C04 only: accept callbacks may also be invoked late, after further checks
	// and accepts ("all histories of check/accept calls"); C05's domain is
	// "accept before the next check".
	type pendingCB struct {
		seq    uint64
		accept func() bool
	}
	var pending []pendingCB
	n := rapid.IntRange(1, maxSteps).Draw(t, "steps")
	for i := 0; i < n; i++ {
		if !exact && len(pending) > 0 && rapid.IntRange(0, 9).Draw(t, "late") < 3 {
			k := rapid.IntRange(0, len(pending)-1).Draw(t, "which")
			p := pending[k]
			pending = append(pending[:k:k], pending[k+1:]...)
			if wm != nil && !wm.Constrained(p.seq) {
				continue
			}
			wantLatest, _ := m.Accept(p.seq)
			ev.NoPanic(t, fmt.Sprintf("late accept(%d)", p.seq), func() { p.accept() })
			t.Logf("step %d: late accept() of %d", i, p.seq)
			c.Op("late-accept %d", p.seq)
			c.Label("late-accept")
			if wantLatest {
				moves++
			}
			if _, seen := acceptedAtShift[p.seq]; !seen || wrapped {
				acceptedAtShift[p.seq] = moves
			}
			continue
		}
		seq, kind := genSeq(t, m, window, max, wrapped)
		want := m.Expect(seq)
		replayed := m.Replayed(seq)
		behind, isBehind := m.Behind(seq)

		var accept func() bool
		var ok bool
		ev.NoPanic(t, fmt.Sprintf("Check(%d)", seq), func() { accept, ok = det.Check(seq) })
		t.Logf("step %d: Check(%d) [%s] -> ok=%v (model: %v, replayed=%v)", i, seq, kind, ok, want, replayed)
		c.Label("seq/" + kind)

		// C04: never a replay, never above max.
		if ok && seq > max {
			t.Fatalf("C04: Check(%d) accepted a number above the maximum %d", seq, max)
		}
		if ok && replayed {
			t.Fatalf("C04: Check(%d) succeeded although %d was accepted before (window=%d max=%d wrapped=%v, %d behind newest)",
				seq, seq, window, max, wrapped, behind)
		}
		if replayed && seq <= max {
			c.Label("replay-attempt")
			if moves > acceptedAtShift[seq] {
				c.Label("replay-after-shift")
				c.NonTrivial()
				if isBehind {
					switch {
					case behind >= uint64(window):
						c.Label("replay/behind-window")
					case behind >= 64 && window%64 != 0 && behind/64 == uint64(window)/64:
						c.Label("replay/bit-in-partial-top-word")
					case behind >= 64:
						c.Label("replay/bit>=64")
					case behind >= 32:
						c.Label("replay/bit32..63")
					default:
						c.Label("replay/bit<32")
					}
				}
			}
		}
		if exact {
			switch want {
			case MustAccept:
				if !ok {
					t.Fatalf("C05: Check(%d) refused a number the rule admits (window=%d max=%d wrapped=%v behind=%d/%v)",
						seq, window, max, wrapped, behind, isBehind)
				}
			case MustRefuse:
				if ok {
					t.Fatalf("C05: Check(%d) succeeded but the rule refuses it (window=%d max=%d wrapped=%v behind=%d/%v)",
						seq, window, max, wrapped, behind, isBehind)
				}
			case Either:
				c.Label("verdict/either")
			}
			if pendingUnaccepted {
				c.Label("check-after-unaccepted-check")
				c.NonTrivial()
			}
			if isBehind && behind > 0 && want == MustAccept {
				c.Label("late-in-window-arrival")
				c.NonTrivial()
			}
			if !wrapped && max-seq < uint64(window) && seq <= max && max > 1<<63 {
				c.Label("near-2^64")
				c.NonTrivial()
			}
		}

		doAccept := false
		if ok {
			constrained := wm == nil || wm.Constrained(seq)
			doAccept = constrained && rapid.IntRange(0, 9).Draw(t, "accept") < 7
		}
		if !doAccept {
			c.Op("check %d(%s)->%v", seq, kind, ok)
			if ok && !exact && len(pending) < 3 && rapid.Bool().Draw(t, "keep") {
				pending = append(pending, pendingCB{seq, accept})
			}
			if ok {
				pendingUnaccepted = true
				c.Label("unaccepted-ok-check")
				if i == 0 {
					c.Label("first-check-unaccepted")
				}
			}
			continue
		}
		wantLatest, certain := m.Accept(seq)
		var latest bool
		ev.NoPanic(t, fmt.Sprintf("accept(%d)", seq), func() { latest = accept() })
		t.Logf("        accept() -> latest=%v (model: %v)", latest, wantLatest)
		c.Op("check+accept %d(%s)->latest=%v", seq, kind, latest)
		if wantLatest {
			moves++
		}
		if _, seen := acceptedAtShift[seq]; !seen || wrapped {
			acceptedAtShift[seq] = moves
		}
		if exact && certain && latest != wantLatest {
			t.Fatalf("C05: accept() of %d returned latest=%v, but it %s the newest accepted number (window=%d max=%d wrapped=%v)",
				seq, latest, map[bool]string{true: "becomes", false: "does not become"}[wantLatest], window, max, wrapped)
		}
		if exact && !wantLatest {
			c.Label("accept-not-latest")
		}
	}
	c.Labelf("window%%64/%s", windowClass(window))
}

func windowClass(w uint) string {
	switch r := w % 64; {
	case w == 0:
		return "zero"
	case r == 0:
		return "0"
	case r <= 32:
		return "1..32"
	default:
		return "33..63"
	}
}

const ruleC04 = "rapid-drawn detector configuration (window aimed at 64-bit word boundaries, maximum unrelated to window incl. tiny and 2^64-1) and a history of 1..200 check/accept steps whose numbers are drawn relative to the model state (30% previously accepted numbers), accept invoked immediately, never, or late (after further checks and accepts); oracle: no successful check of a number accepted before (wrapping: while the newest accepted number is < half the space ahead), none above the maximum, no panic; non-trivial = the history re-checks an accepted number after the window has moved since its acceptance; distinct by hash of configuration+steps"

const ruleC05 = "configuration inside the stated domain (max >= window; wrapping: max+1 >= 2*window, max < 2^62), history of 1..200 steps with ~30% of successful checks left un-accepted; every Check result and every accept() return value compared with the reference model (accepted set + newest), both directions; the two numbers nearest the half-space boundary answer 'either' and are never accepted; non-trivial = the history has a check after an un-accepted successful check, a late in-window arrival, or a number within window of 2^64; distinct by hash of configuration+steps"

func TestC04Plain(t *testing.T) {
	r := ev.New("C04", "plain", ruleC04)
	r.Essential = []string{"replay-after-shift", "replay/bit-in-partial-top-word", "replay/behind-window", "window%64/33..63", "late-accept"}
	r.MinForEssential = 2000
	r.Check(t, func(t *rapid.T, c *ev.Case) { history(t, c, false, false) })
}

func TestC04Wrapped(t *testing.T) {
	r := ev.New("C04", "wrapping", ruleC04)
	r.Essential = []string{"replay-after-shift", "replay/bit-in-partial-top-word", "replay/behind-window", "window%64/33..63"}
	r.MinForEssential = 2000
	r.Check(t, func(t *rapid.T, c *ev.Case) { history(t, c, true, false) })
}

func TestC05Plain(t *testing.T) {
	r := ev.New("C05", "plain", ruleC05)
	r.Essential = []string{"check-after-unaccepted-check", "late-in-window-arrival", "near-2^64", "first-check-unaccepted"}
	r.MinForEssential = 2000
	r.Check(t, func(t *rapid.T, c *ev.Case) { history(t, c, false, true) })
}

func TestC05Wrapped(t *testing.T) {
	r := ev.New("C05", "wrapping", ruleC05)
	r.Essential = []string{"check-after-unaccepted-check", "late-in-window-arrival", "first-check-unaccepted", "verdict/either"}
	r.MinForEssential = 2000
	r.Check(t, func(t *rapid.T, c *ev.Case) { history(t, c, true, true) })
}
