package replay

import (
	"math"

	"pgregory.net/rapid"
)

// genWindow draws a window size aimed at the word boundaries of the bit mask.
func genWindow(t *rapid.T) uint {
	switch rapid.IntRange(0, 9).Draw(t, "wkind") {
	case 0:
		return uint(rapid.IntRange(0, 2).Draw(t, "w"))
	case 1, 2, 3:
		k := rapid.IntRange(0, 8).Draw(t, "wk")
		d := rapid.IntRange(-2, 2).Draw(t, "wd")
		w := k*64 + d
		if w < 0 {
			w = 0
		}
		return uint(w)
	case 4:
		return uint(rapid.IntRange(31, 34).Draw(t, "w"))
	case 5:
		return uint(rapid.IntRange(47, 50).Draw(t, "w"))
	case 6:
		return uint(rapid.IntRange(3, 70).Draw(t, "w"))
	default:
		return uint(rapid.IntRange(0, 600).Draw(t, "w"))
	}
}

// genMaxWide draws a maximum with no relation to the window (C04 domain).
func genMaxWide(t *rapid.T, window uint, wrapped bool) uint64 {
	w := uint64(window)
	c := []uint64{0, 1, 2, 3, 7, 15, 255, 1<<16 - 1, 1<<48 - 1, 1<<62 - 1}
	if w > 0 {
		c = append(c, w-1, w, w+1, 2*w-1, 2*w, 2*w+1, w/2)
	}
	if !wrapped {
		c = append(c, 1<<63, math.MaxUint64, math.MaxUint64-1, 1<<63-1)
	}
	i := rapid.IntRange(0, len(c)+1).Draw(t, "maxkind")
	if i < len(c) {
		return c[i]
	}
	if i == len(c) {
		return uint64(rapid.IntRange(0, 5000).Draw(t, "max"))
	}
	hi := uint64(1<<62 - 1)
	if !wrapped {
		hi = math.MaxUint64
	}
	return rapid.Uint64Range(0, hi).Draw(t, "max")
}

// genMaxDomain draws a maximum inside the domain of C05: max >= window; for
// the wrapping detector max+1 >= 2*window and max < 2^62.
func genMaxDomain(t *rapid.T, window uint, wrapped bool) uint64 {
	w := uint64(window)
	lo := w
	if wrapped {
		lo = 0
		if w > 0 {
			lo = 2*w - 1
		}
	}
	c := []uint64{lo, lo + 1, lo + 2, lo + 3, 2*lo + 1, 255, 1<<16 - 1, 1<<48 - 1, 1<<62 - 1, 1<<16 - 2}
	if !wrapped {
		c = append(c, 1<<63, math.MaxUint64, math.MaxUint64-1, 1<<63-1)
	}
	i := rapid.IntRange(0, len(c)+1).Draw(t, "maxkind")
	var m uint64
	switch {
	case i < len(c):
		m = c[i]
	case i == len(c):
		m = lo + uint64(rapid.IntRange(0, 3000).Draw(t, "max"))
	default:
		hi := uint64(1<<62 - 1)
		if !wrapped {
			hi = math.MaxUint64
		}
		m = rapid.Uint64Range(lo, hi).Draw(t, "max")
	}
	if m < lo {
		m = lo
	}
	return m
}

func satAdd(a, b uint64) uint64 {
	if a+b < a {
		return math.MaxUint64
	}
	return a + b
}

func satSub(a, b uint64) uint64 {
	if b > a {
		return 0
	}
	return a - b
}

// genSeq draws the next sequence number relative to the model state.
func genSeq(t *rapid.T, m Model, window uint, max uint64, wrapped bool) (uint64, string) {
	w := uint64(window)
	newest, _ := m.Newest()
	space := max + 1 // only used when wrapped (max < 2^63)
	fwd := func(d uint64) uint64 {
		if wrapped {
			return (newest + d%space) % space
		}
		return satAdd(newest, d)
	}
	back := func(d uint64) uint64 {
		if wrapped {
			d %= space
			return (newest + space - d) % space
		}
		return satSub(newest, d)
	}
	acc := m.AcceptedList()
	k := rapid.IntRange(0, 99).Draw(t, "skind")
	switch {
	case k < 28 && len(acc) > 0:
		// a previously accepted number, recent ones more often
		n := len(acc)
		var i int
		if rapid.Bool().Draw(t, "recent") && n > 8 {
			i = n - 1 - rapid.IntRange(0, 7).Draw(t, "ri")
		} else {
			i = rapid.IntRange(0, n-1).Draw(t, "ri")
		}
		return acc[i], "replay"
	case k < 40:
		return fwd(uint64(rapid.IntRange(1, 3).Draw(t, "d"))), "fwd-small"
	case k < 48:
		return fwd(uint64(int64(w) + int64(rapid.IntRange(-2, 2).Draw(t, "d")))), "fwd-window"
	case k < 54:
		kk := rapid.IntRange(1, 9).Draw(t, "k")
		return fwd(uint64(kk*64 + rapid.IntRange(-2, 2).Draw(t, "d"))), "fwd-word"
	case k < 58:
		if max == math.MaxUint64 {
			return fwd(rapid.Uint64().Draw(t, "d")), "fwd-any"
		}
		return fwd(rapid.Uint64Range(0, max).Draw(t, "d")), "fwd-any"
	case k < 66:
		return back(uint64(rapid.IntRange(0, 3).Draw(t, "d"))), "back-small"
	case k < 76:
		d := int64(w) + int64(rapid.IntRange(-2, 1).Draw(t, "d"))
		if d < 0 {
			d = 0
		}
		return back(uint64(d)), "back-edge"
	case k < 82:
		kk := rapid.IntRange(0, 9).Draw(t, "k")
		d := kk*64 + rapid.IntRange(-1, 1).Draw(t, "d")
		if d < 0 {
			d = 0
		}
		return back(uint64(d)), "back-word"
	case k < 87:
		return back(uint64(rapid.IntRange(0, int(w)+70).Draw(t, "d"))), "back-any"
	case k < 90:
		return 0, "zero"
	case k < 93:
		return satSub(max, uint64(rapid.IntRange(0, 2).Draw(t, "d"))), "max"
	case k < 95:
		return satAdd(max, uint64(rapid.IntRange(1, 2).Draw(t, "d"))), "above-max"
	case k < 96:
		return math.MaxUint64, "2^64-1"
	default:
		if wrapped {
			h := space / 2
			return fwd(h + space - 2 + uint64(rapid.IntRange(0, 4).Draw(t, "d"))), "half-space"
		}
		return satSub(math.MaxUint64, uint64(rapid.IntRange(0, int(w)+2).Draw(t, "d"))), "near-2^64"
	}
}
