package replay

import (
	"math"
	"testing"
)

// Fixed histories: the shrunk counter-examples of the defects that were found
// on the pinned tree and repaired (see KNOWN_FINDINGS.jsonl). They bypass
// rapid and run in milliseconds.

type step struct {
	seq    uint64
	accept bool
}

func runScript(t *testing.T, wrapped, exact bool, window uint, max uint64, steps []step) {
	t.Helper()
	det, m := newDetector(wrapped, window, max)
	for i, s := range steps {
		want := m.Expect(s.seq)
		replayed := m.Replayed(s.seq)
		accept, ok := det.Check(s.seq)
		if ok && replayed {
			t.Fatalf("step %d: Check(%d) succeeded although it was accepted before / is above max (window=%d max=%d wrapped=%v)", i, s.seq, window, max, wrapped)
		}
		if exact && want != Either && ok != (want == MustAccept) {
			t.Fatalf("step %d: Check(%d) = %v, model says %v (window=%d max=%d wrapped=%v)", i, s.seq, ok, want, window, max, wrapped)
		}
		if wm, isW := m.(*Wrapped); isW && !wm.Constrained(s.seq) {
			continue
		}
		if ok && s.accept {
			wantLatest, _ := m.Accept(s.seq)
			if got := accept(); exact && got != wantLatest {
				t.Fatalf("step %d: accept(%d) latest=%v, model says %v", i, s.seq, got, wantLatest)
			}
		}
	}
}

func TestRegressC04_MsbMask(t *testing.T) {
	for _, w := range []uint{33, 48, 50, 63, 100, 127} {
		hi := uint64(w) - 1
		runScript(t, false, false, w, 1<<48-1, []step{{hi, true}, {hi + 1, true}, {hi, true}, {0, true}, {hi + 1, true}})
		runScript(t, true, false, w, 1<<16-1, []step{{1000 + hi, true}, {1001 + hi, true}, {1000 + hi, true}})
	}
}

func TestRegressC04_PlainModulo(t *testing.T) {
	runScript(t, false, false, 2, 1, []step{{1, true}, {0, true}, {0, true}})
	runScript(t, false, false, 4, 0, []step{{0, true}, {0, true}})
	runScript(t, false, false, 100, 10, []step{{10, true}, {0, true}, {0, true}})
}

func TestRegressC04_WrapLatePacket(t *testing.T) {
	runScript(t, true, false, 64, 65535, []step{{65530, true}, {2, true}, {65534, true}, {65534, true}})
}

func TestRegressC04_WrapTinySpace(t *testing.T) {
	runScript(t, true, false, 64, 0, []step{{0, true}, {0, true}})
	runScript(t, true, false, 3, 1, []step{{0, true}, {0, true}, {0, true}})
}

func TestRegressC04_WrapImpureCheck(t *testing.T) {
	runScript(t, true, false, 63, 5, []step{{1, false}, {3, true}, {1, true}, {3, true}})
}

func TestRegressC05_LateZero(t *testing.T) {
	runScript(t, false, true, 31, 31, []step{{5, true}, {0, true}})
	runScript(t, false, true, 8, 100, []step{{0, true}, {1, true}})
}

func TestRegressC05_OverflowNearTop(t *testing.T) {
	runScript(t, false, true, 31, math.MaxUint64, []step{{math.MaxUint64, true}, {math.MaxUint64 - 1, true}, {math.MaxUint64 - 30, true}, {math.MaxUint64 - 31, true}})
}

func TestRegressC05_WrapImpureCheck(t *testing.T) {
	runScript(t, true, true, 8, 65535, []step{{100, false}, {50, true}, {100, true}, {49, true}})
	runScript(t, true, true, 0, 0, []step{{0, false}, {0, true}, {0, true}})
}

// C04-wrap-stale-accept (fixed by af51909): a callback invoked after other
// numbers were accepted used the distance computed by its Check.
func TestRegressC04_WrapLateAccept(t *testing.T) {
	for _, cfg := range []struct {
		w   uint
		max uint64
	}{{31, 7}, {64, 65535}, {16, 255}} {
		det, m := newDetector(true, cfg.w, cfg.max)
		acc := func(seq uint64) {
			a, ok := det.Check(seq)
			if !ok {
				t.Fatalf("setup: Check(%d) refused", seq)
			}
			m.Accept(seq)
			a()
		}
		acc(1)
		acc(0)
		acc(3)
		acc(5)
		kept, ok := det.Check(4)
		if !ok {
			t.Fatalf("Check(4) refused")
		}
		acc(6)
		acc(7)
		m.Accept(4)
		kept() // late
		for _, seq := range []uint64{4, 5, 6, 7, 3, 1, 0} {
			if _, ok := det.Check(seq); ok && m.Replayed(seq) {
				t.Fatalf("C04: window %d max %d: Check(%d) succeeded although %d was accepted before (late accept of 4 after the window moved)", cfg.w, cfg.max, seq, seq)
			}
		}
	}
}
