package replay

import (
	"testing"

	"pgregory.net/rapid"

	"verifharness/ev"
)

// Native fuzz targets (thorough tier): the rapid properties of C04/C05 driven
// by the coverage-guided fuzzer's bytes instead of rapid's own generator
// (rapid.MakeFuzz decodes the bytes as the draw stream), so the semantic
// oracle sits inside the target.

var fuzzRec = ev.New("C04", "fuzz", "native fuzzing")

func seedCorpus(f *testing.F) {
	f.Add([]byte{})
	f.Add([]byte{1, 2, 3, 4, 5, 6, 7, 8, 9, 10, 11, 12, 13, 14, 15, 16})
	f.Add([]byte{0xff, 0xff, 0xff, 0xff, 0xff, 0xff, 0xff, 0xff, 0xff, 0xff, 0xff, 0xff, 0x40, 0x40, 0x3f, 0x41, 0x80, 0x00})
	b := make([]byte, 512)
	for i := range b {
		b[i] = byte(i*37 + 11)
	}
	f.Add(b)
}

func FuzzC04(f *testing.F) {
	seedCorpus(f)
	f.Fuzz(rapid.MakeFuzz(func(t *rapid.T) {
		history(t, fuzzRec.Begin(), rapid.Bool().Draw(t, "wrapped"), false)
	}))
}

func FuzzC05(f *testing.F) {
	seedCorpus(f)
	f.Fuzz(rapid.MakeFuzz(func(t *rapid.T) {
		history(t, fuzzRec.Begin(), rapid.Bool().Draw(t, "wrapped"), true)
	}))
}
