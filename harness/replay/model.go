// Package replay holds the checks for C04 and C05: reference models of the
// plain and the wrapping replay detector, written from the property
// statements (accepted set + newest accepted number), not from the code.
package replay

// Verdict is the model's expectation for a check.
type Verdict int

const (
	MustRefuse Verdict = iota
	MustAccept
	Either
)

func (v Verdict) String() string { return [...]string{"refuse", "accept", "either"}[v] }

// Model is the common interface of the two reference models.
type Model interface {
	// Expect returns the verdict for seq under the exact rule (C05).
	Expect(seq uint64) Verdict
	// Replayed reports whether seq has been accepted before and the statement
	// of C04 obliges the detector to refuse it now.
	Replayed(seq uint64) bool
	// Accept records that accept() was invoked for seq (after an ok check);
	// it returns whether seq becomes the newest accepted number, and whether
	// that expectation is certain.
	Accept(seq uint64) (latest bool, certain bool)
	// Behind returns how far seq lies behind the newest accepted number
	// (ok=false if seq is newer or nothing was accepted).
	Behind(seq uint64) (uint64, bool)
	Newest() (uint64, bool)
	AcceptedList() []uint64
}

// ---- plain detector ----------------------------------------------------

type Plain struct {
	Window   uint64
	Max      uint64
	newest   uint64
	any      bool
	accepted map[uint64]struct{}
	order    []uint64
}

func NewPlain(window uint, max uint64) *Plain {
	return &Plain{Window: uint64(window), Max: max, accepted: map[uint64]struct{}{}}
}

func (m *Plain) Expect(seq uint64) Verdict {
	if seq > m.Max {
		return MustRefuse
	}
	if _, dup := m.accepted[seq]; dup {
		return MustRefuse
	}
	if seq > m.newest || m.newest-seq < m.Window {
		return MustAccept
	}
	return MustRefuse
}

func (m *Plain) Replayed(seq uint64) bool {
	_, dup := m.accepted[seq]
	return dup || seq > m.Max
}

func (m *Plain) Accept(seq uint64) (bool, bool) {
	latest := !m.any || seq > m.newest
	if _, dup := m.accepted[seq]; !dup {
		m.accepted[seq] = struct{}{}
		m.order = append(m.order, seq)
	}
	if latest {
		m.newest = seq
	}
	m.any = true
	return latest, true
}

func (m *Plain) Behind(seq uint64) (uint64, bool) {
	if seq > m.newest {
		return 0, false
	}
	return m.newest - seq, true
}

func (m *Plain) Newest() (uint64, bool) { return m.newest, m.any }
func (m *Plain) AcceptedList() []uint64 { return m.order }

// ---- wrapping detector -------------------------------------------------

// pos is an unwrapped position: cycle*space + seq.
type pos struct {
	cycle int64
	seq   uint64
}

type Wrapped struct {
	Window   uint64
	Max      uint64
	space    uint64 // Max+1 (Max < 2^63)
	started  bool
	newest   pos
	accepted map[pos]struct{}
	order    []uint64
}

func NewWrapped(window uint, max uint64) *Wrapped {
	return &Wrapped{Window: uint64(window), Max: max, space: max + 1, accepted: map[pos]struct{}{}}
}

// ahead returns (seq - newest) mod space.
func (m *Wrapped) ahead(seq uint64) uint64 {
	if seq >= m.newest.seq {
		return seq - m.newest.seq
	}
	return m.space - (m.newest.seq - seq)
}

// unconstrained reports whether ahead-distance a is one of the two numbers
// nearest the half-space boundary.
func (m *Wrapped) unconstrained(a uint64) bool {
	h := m.space / 2
	if m.space%2 == 0 {
		return a == h || a+1 == h
	}
	return a == h || a == h+1
}

// locate maps seq to its unwrapped position relative to newest.
// newer: strictly less than half the space ahead. ok=false: unconstrained.
func (m *Wrapped) locate(seq uint64) (p pos, newer bool, ok bool) {
	a := m.ahead(seq)
	if m.unconstrained(a) {
		return pos{}, false, false
	}
	if a != 0 && 2*a < m.space { // newer
		p = m.newest
		if seq < m.newest.seq {
			p.cycle++
		}
		p.seq = seq
		return p, true, true
	}
	// behind (a == 0: the newest itself)
	p = m.newest
	if seq > m.newest.seq {
		p.cycle--
	}
	p.seq = seq
	return p, false, true
}

func (m *Wrapped) Expect(seq uint64) Verdict {
	if seq > m.Max {
		return MustRefuse
	}
	if !m.started {
		return MustAccept
	}
	p, newer, ok := m.locate(seq)
	if !ok {
		return Either
	}
	if _, dup := m.accepted[p]; dup {
		return MustRefuse
	}
	if newer {
		return MustAccept
	}
	behind := m.space - m.ahead(seq)
	if m.ahead(seq) == 0 {
		behind = 0
	}
	if behind < m.Window {
		return MustAccept
	}
	return MustRefuse
}

func (m *Wrapped) Replayed(seq uint64) bool {
	if seq > m.Max {
		return true
	}
	if !m.started {
		return false
	}
	// C04: refused as long as the newest accepted number is less than half
	// the space ahead of it.
	a := m.ahead(seq)
	var behind uint64
	if a != 0 {
		behind = m.space - a
	}
	if 2*behind >= m.space {
		return false
	}
	p := m.newest
	if seq > m.newest.seq {
		p.cycle--
	}
	p.seq = seq
	_, dup := m.accepted[p]
	return dup
}

func (m *Wrapped) Accept(seq uint64) (bool, bool) {
	if !m.started {
		m.started = true
		m.newest = pos{0, seq}
		m.accepted[m.newest] = struct{}{}
		m.order = append(m.order, seq)
		return true, true
	}
	p, newer, ok := m.locate(seq)
	if !ok {
		// The harness does not invoke accept in the unconstrained zone.
		panic("model: accept in unconstrained zone")
	}
	if _, dup := m.accepted[p]; !dup {
		m.accepted[p] = struct{}{}
		m.order = append(m.order, seq)
	}
	if newer {
		m.newest = p
	}
	return newer, true
}

func (m *Wrapped) Behind(seq uint64) (uint64, bool) {
	if !m.started {
		return 0, false
	}
	a := m.ahead(seq)
	if a == 0 {
		return 0, true
	}
	if 2*a < m.space {
		return 0, false
	}
	return m.space - a, true
}

func (m *Wrapped) Newest() (uint64, bool) { return m.newest.seq, m.started }
func (m *Wrapped) AcceptedList() []uint64 { return m.order }

// Constrained reports whether seq is outside the unconstrained zone.
func (m *Wrapped) Constrained(seq uint64) bool {
	if seq > m.Max || !m.started {
		return true
	}
	_, _, ok := m.locate(seq)
	return ok
}
