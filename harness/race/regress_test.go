package race

import "testing"

// C19-mac-counter (fixed by d52d4ed) and C19-tbf-rate-race (fixed by 67da24a):
// the two programs that first exposed the races, re-run a few times.
func TestRegressC19_MacCounter(t *testing.T) {
	p := Program{Family: "build-networks", Ops: [][]int{{1, 2, 2, 2, 0, 1}, {0, 1}, {2, 1, 0, 2}}}
	for i := 0; i < 10; i++ {
		if _, err := execute(p); err != nil {
			t.Fatal(err)
		}
	}
}

func TestRegressC19_TBFRate(t *testing.T) {
	p := Program{Family: "filters", Ops: [][]int{{0, 0, 0, 0, 0, 0}, {1, 1, 1, 6, 1, 1}, {0, 3, 0, 3}}}
	for i := 0; i < 10; i++ {
		if _, err := execute(p); err != nil {
			t.Fatal(err)
		}
	}
}
