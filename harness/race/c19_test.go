// Package race holds the check for C19: rapid-generated client programs over
// the APIs the packages document or test as concurrency-safe, executed for
// real under the Go race detector (the driver builds this package with
// -race and GORACE=halt_on_error=1). The program is printed before it runs,
// so a race report can be paired with its program and replayed.
package race

import (
	"bufio"
	"context"
	"encoding/json"
	"fmt"
	"net"
	"os"
	"strings"
	"sync"
	"sync/atomic"
	"testing"
	"time"

	"github.com/pion/logging"
	"github.com/pion/transport/v3/deadline"
	"github.com/pion/transport/v3/dpipe"
	"github.com/pion/transport/v3/packetio"
	"github.com/pion/transport/v3/udp"
	"github.com/pion/transport/v3/vnet"
	"pgregory.net/rapid"

	"verifharness/ev"
)

// Program is one generated client program.
type Program struct {
	Family string  `json:"family"`
	Ops    [][]int `json:"ops"` // per goroutine: operation codes
}

var families = []string{"buffer", "deadline", "dpipe", "vnet", "filters", "udp", "build-networks", "nat"}

// number of operation codes per family
var nOps = map[string]int{"buffer": 9, "deadline": 6, "dpipe": 7, "vnet": 12, "filters": 9, "udp": 7, "build-networks": 3, "nat": 13}

func quiet() logging.LoggerFactory {
	lf := logging.NewDefaultLoggerFactory()
	lf.DefaultLogLevel = logging.LogLevelDisabled
	return lf
}

// world is the set of shared objects of one program run.
type world struct {
	run     func(g, op int)
	release func() // unblocks anything still parked, closes everything
}

func soon() time.Time { return time.Now().Add(500 * time.Microsecond) }

func newWorld(family string, goroutines int) (*world, error) {
	switch family {
	case "buffer":
		b := packetio.NewBuffer()
		return &world{
			run: func(g, op int) {
				switch op {
				case 0:
					_, _ = b.Write(make([]byte, 10+g))
				case 1:
					_ = b.SetReadDeadline(soon())
					_, _ = b.Read(make([]byte, 64))
				case 2:
					_ = b.Count()
				case 3:
					_ = b.Size()
				case 4:
					b.SetLimitCount(3 + g)
				case 5:
					b.SetLimitSize(1000 * (g + 1))
				case 6:
					_ = b.SetReadDeadline(time.Time{})
					_ = b.SetReadDeadline(soon())
				case 7:
					_, _ = b.Write(make([]byte, 3000))
				case 8:
					if g == 0 {
						_ = b.Close()
					} else {
						_, _ = b.Write([]byte("x"))
					}
				}
			},
			release: func() { _ = b.Close() },
		}, nil
	case "deadline":
		d := deadline.New()
		return &world{
			run: func(g, op int) {
				switch op {
				case 0:
					d.Set(time.Now().Add(time.Duration(100+50*g) * time.Microsecond))
				case 1:
					d.Set(time.Time{})
				case 2:
					d.Set(time.Now().Add(-time.Second))
				case 3:
					select {
					case <-d.Done():
					case <-time.After(300 * time.Microsecond):
					}
				case 4:
					_ = d.Err()
				case 5:
					_, _ = d.Deadline()
				}
			},
			release: func() { d.Set(time.Time{}) },
		}, nil
	case "dpipe":
		a, b := dpipe.Pipe()
		ends := []net.Conn{a, b}
		return &world{
			run: func(g, op int) {
				e := ends[g%2]
				switch op {
				case 0:
					_ = e.SetWriteDeadline(soon())
					_, _ = e.Write([]byte("hello"))
				case 1:
					_ = e.SetReadDeadline(soon())
					_, _ = e.Read(make([]byte, 16))
				case 2:
					_ = e.SetDeadline(soon())
				case 3:
					_ = e.SetReadDeadline(time.Time{})
					_ = e.SetReadDeadline(soon())
				case 4:
					_ = e.LocalAddr()
				case 5:
					_ = ends[(g+1)%2].SetReadDeadline(soon())
					_, _ = ends[(g+1)%2].Read(make([]byte, 3))
				case 6:
					if g == 0 {
						_ = e.Close()
					}
				}
			},
			release: func() { _ = a.Close(); _ = b.Close() },
		}, nil
	case "vnet":
		lf := quiet()
		r, err := vnet.NewRouter(&vnet.RouterConfig{CIDR: "10.0.0.0/24", LoggerFactory: lf})
		if err != nil {
			return nil, err
		}
		n1, _ := vnet.NewNet(&vnet.NetConfig{StaticIPs: []string{"10.0.0.2"}})
		n2, _ := vnet.NewNet(&vnet.NetConfig{StaticIPs: []string{"10.0.0.3"}})
		if err = r.AddNet(n1); err != nil {
			return nil, err
		}
		if err = r.AddNet(n2); err != nil {
			return nil, err
		}
		if err = r.Start(); err != nil {
			return nil, err
		}
		c1, err := n1.ListenUDP("udp", &net.UDPAddr{IP: net.ParseIP("10.0.0.2"), Port: 4000})
		if err != nil {
			return nil, err
		}
		c2, err := n2.ListenUDP("udp", &net.UDPAddr{IP: net.ParseIP("10.0.0.3"), Port: 4000})
		if err != nil {
			return nil, err
		}
		a1 := &net.UDPAddr{IP: net.ParseIP("10.0.0.2"), Port: 4000}
		a2 := &net.UDPAddr{IP: net.ParseIP("10.0.0.3"), Port: 4000}
		return &world{
			run: func(g, op int) {
				switch op {
				case 0:
					_, _ = c1.WriteTo([]byte("ping"), a2)
				case 1:
					_, _ = c2.WriteTo([]byte("pong"), a1)
				case 2:
					_ = c1.SetReadDeadline(soon())
					_, _, _ = c1.ReadFrom(make([]byte, 64))
				case 3:
					_ = c2.SetReadDeadline(soon())
					_, _, _ = c2.ReadFrom(make([]byte, 64))
				case 4:
					if cn, err := n1.ListenUDP("udp", &net.UDPAddr{IP: net.ParseIP("10.0.0.2")}); err == nil {
						_, _ = cn.WriteTo([]byte("x"), a2)
						_ = cn.Close()
					}
				case 5:
					if cn, err := n2.Dial("udp", "10.0.0.2:4000"); err == nil {
						_, _ = cn.Write([]byte("d"))
						_ = cn.Close()
					}
				case 6:
					r.AddChunkFilter(func(vnet.Chunk) bool { return true })
				case 7:
					_ = c2.SetReadDeadline(time.Time{})
					_ = c2.SetReadDeadline(soon())
				case 8:
					_, _ = n1.Interfaces()
					_, _ = n2.InterfaceByName("eth0")
				case 9:
					if g == 0 {
						_ = r.Stop()
						_ = r.Start()
					} else {
						_, _ = c1.WriteTo([]byte("ping"), a2)
					}
				case 10, 11:
					// the topology grows while the router forwards (vnet.UDPProxy does this for
					// every new peer): a fresh host is attached, binds a socket and sends
					if nn, err := vnet.NewNet(&vnet.NetConfig{}); err == nil {
						if r.AddNet(nn) == nil && op == 11 {
							if cn, err := nn.ListenUDP("udp", &net.UDPAddr{IP: net.IPv4zero, Port: 4000}); err == nil {
								_, _ = cn.WriteTo([]byte("new"), a1)
								_ = cn.Close()
							}
						}
					}
				}
			},
			release: func() { _ = c1.Close(); _ = c2.Close(); _ = r.Stop() },
		}, nil
	case "filters":
		lf := quiet()
		r, err := vnet.NewRouter(&vnet.RouterConfig{CIDR: "10.0.0.0/24", LoggerFactory: lf})
		if err != nil {
			return nil, err
		}
		n1, _ := vnet.NewNet(&vnet.NetConfig{StaticIPs: []string{"10.0.0.2"}})
		n2, _ := vnet.NewNet(&vnet.NetConfig{StaticIPs: []string{"10.0.0.3"}})
		n3, _ := vnet.NewNet(&vnet.NetConfig{StaticIPs: []string{"10.0.0.4"}})
		tbf, err := vnet.NewTokenBucketFilter(n2, vnet.TBFRate(10*vnet.MBit), vnet.TBFMaxBurst(20000))
		if err != nil {
			return nil, err
		}
		lossf, _ := vnet.NewLossFilter(n3, 10)
		n4, _ := vnet.NewNet(&vnet.NetConfig{StaticIPs: []string{"10.0.0.5"}})
		delayf, _ := vnet.NewDelayFilter(n4, 200*time.Microsecond)
		dctx, dcancel := context.WithCancel(context.Background())
		go delayf.Run(dctx)
		if err = r.AddNet(n1); err != nil {
			return nil, err
		}
		if err = r.AddNet(tbf); err != nil {
			return nil, err
		}
		if err = r.AddNet(lossf); err != nil {
			return nil, err
		}
		if err = r.AddNet(delayf); err != nil {
			return nil, err
		}
		if err = r.Start(); err != nil {
			return nil, err
		}
		c1, err := n1.ListenUDP("udp", &net.UDPAddr{IP: net.ParseIP("10.0.0.2"), Port: 4000})
		if err != nil {
			return nil, err
		}
		c2, err := n2.ListenUDP("udp", &net.UDPAddr{IP: net.ParseIP("10.0.0.3"), Port: 4000})
		if err != nil {
			return nil, err
		}
		c3, err := n3.ListenUDP("udp", &net.UDPAddr{IP: net.ParseIP("10.0.0.4"), Port: 4000})
		if err != nil {
			return nil, err
		}
		a2 := &net.UDPAddr{IP: net.ParseIP("10.0.0.3"), Port: 4000}
		a3 := &net.UDPAddr{IP: net.ParseIP("10.0.0.4"), Port: 4000}
		c4, err := n4.ListenUDP("udp", &net.UDPAddr{IP: net.ParseIP("10.0.0.5"), Port: 4000})
		if err != nil {
			return nil, err
		}
		a4 := &net.UDPAddr{IP: net.ParseIP("10.0.0.5"), Port: 4000}
		return &world{
			run: func(g, op int) {
				switch op {
				case 0:
					_, _ = c1.WriteTo(make([]byte, 200), a2)
				case 1:
					tbf.Set(vnet.TBFRate((g + 1) * vnet.MBit))
				case 2:
					tbf.Set(vnet.TBFMaxBurst(8000 * (g + 1)))
				case 3:
					_ = c2.SetReadDeadline(soon())
					_, _, _ = c2.ReadFrom(make([]byte, 300))
				case 4:
					_, _ = c1.WriteTo(make([]byte, 100), a3)
				case 5:
					_ = c3.SetReadDeadline(soon())
					_, _, _ = c3.ReadFrom(make([]byte, 300))
				case 6:
					tbf.Set(vnet.TBFRate(5*vnet.MBit), vnet.TBFMaxBurst(10000))
				case 7:
					_, _ = c1.WriteTo(make([]byte, 50), a4)
				case 8:
					_ = c4.SetReadDeadline(soon())
					_, _, _ = c4.ReadFrom(make([]byte, 300))
				}
			},
			release: func() {
				_ = c1.Close()
				_ = c2.Close()
				_ = c3.Close()
				_ = c4.Close()
				_ = r.Stop()
				dcancel()
				_ = tbf.Close()
			},
		}, nil
	case "udp":
		ln, err := udp.Listen("udp", &net.UDPAddr{IP: net.IPv4(127, 0, 0, 1)})
		if err != nil {
			return nil, err
		}
		laddr := ln.Addr().(*net.UDPAddr)
		rem, err := net.DialUDP("udp", nil, laddr)
		if err != nil {
			return nil, err
		}
		if _, err = rem.Write([]byte("hello")); err != nil {
			return nil, err
		}
		cn, err := ln.Accept()
		if err != nil {
			return nil, err
		}
		var mu sync.Mutex
		var extra []net.Conn
		var rems []*net.UDPConn
		return &world{
			run: func(g, op int) {
				switch op {
				case 0:
					_, _ = rem.Write([]byte("data"))
				case 1:
					_ = cn.SetReadDeadline(soon())
					_, _ = cn.Read(make([]byte, 64))
				case 2:
					_, _ = cn.Write([]byte("reply"))
				case 3:
					// a new remote and an accept for it
					if r2, err := net.DialUDP("udp", nil, laddr); err == nil {
						_, _ = r2.Write([]byte("new"))
						mu.Lock()
						rems = append(rems, r2)
						mu.Unlock()
					}
				case 4:
					done := make(chan struct{})
					go func() {
						defer close(done)
						if c2, err := ln.Accept(); err == nil {
							mu.Lock()
							extra = append(extra, c2)
							mu.Unlock()
						}
					}()
					select {
					case <-done:
					case <-time.After(time.Millisecond):
					}
				case 5:
					mu.Lock()
					var c2 net.Conn
					if len(extra) > 0 {
						c2 = extra[len(extra)-1]
						extra = extra[:len(extra)-1]
					}
					mu.Unlock()
					if c2 != nil {
						_, _ = c2.Write([]byte("bye"))
						_ = c2.Close()
					}
				case 6:
					if g == 0 {
						_ = ln.Close()
					} else {
						_ = cn.SetReadDeadline(soon())
					}
				}
			},
			release: func() {
				_ = ln.Close()
				_ = cn.Close()
				mu.Lock()
				for _, c := range extra {
					_ = c.Close()
				}
				for _, r := range rems {
					_ = r.Close()
				}
				mu.Unlock()
				_ = rem.Close()
			},
		}, nil
	case "build-networks":
		var mu sync.Mutex
		var routers []*vnet.Router
		return &world{
			run: func(g, op int) {
				lf := quiet()
				switch op {
				case 0, 1:
					r, err := vnet.NewRouter(&vnet.RouterConfig{CIDR: fmt.Sprintf("10.%d.0.0/24", g), LoggerFactory: lf})
					if err != nil {
						return
					}
					n1, _ := vnet.NewNet(&vnet.NetConfig{})
					n2, _ := vnet.NewNet(&vnet.NetConfig{})
					_ = r.AddNet(n1)
					_ = r.AddNet(n2)
					if op == 1 {
						child, err := vnet.NewRouter(&vnet.RouterConfig{CIDR: "192.168.0.0/24", LoggerFactory: lf})
						if err == nil {
							n3, _ := vnet.NewNet(&vnet.NetConfig{})
							_ = child.AddNet(n3)
							_ = r.AddRouter(child)
						}
					}
					if r.Start() == nil {
						mu.Lock()
						routers = append(routers, r)
						mu.Unlock()
					}
				case 2:
					n, _ := vnet.NewNet(&vnet.NetConfig{})
					_, _ = n.Interfaces()
				}
			},
			release: func() {
				mu.Lock()
				for _, r := range routers {
					_ = r.Stop()
				}
				mu.Unlock()
			},
		}, nil
	}
	if family == "nat" {
		return newNATWorld(goroutines)
	}
	return nil, fmt.Errorf("unknown family %s", family)
}

// newNATWorld: a WAN router with two hosts and a child LAN router behind a
// NAPT (endpoint-independent mapping, address-and-port-dependent filtering, or
// symmetric), one LAN host. Outbound traffic is translated on the LAN router's
// goroutine, inbound traffic on the WAN router's goroutine, both on the same
// translation tables.
func newNATWorld(goroutines int) (*world, error) {
	lf := quiet()
	wan, err := vnet.NewRouter(&vnet.RouterConfig{CIDR: "27.0.0.0/8", LoggerFactory: lf})
	if err != nil {
		return nil, err
	}
	nt := &vnet.NATType{MappingBehavior: vnet.EndpointIndependent, FilteringBehavior: vnet.EndpointAddrPortDependent, MappingLifeTime: 2 * time.Millisecond}
	if goroutines%2 == 1 {
		nt = &vnet.NATType{MappingBehavior: vnet.EndpointAddrPortDependent, FilteringBehavior: vnet.EndpointAddrDependent, MappingLifeTime: time.Hour}
	}
	lan, err := vnet.NewRouter(&vnet.RouterConfig{CIDR: "192.168.0.0/24", StaticIPs: []string{"27.0.0.1"}, LoggerFactory: lf, NATType: nt})
	if err != nil {
		return nil, err
	}
	w1, _ := vnet.NewNet(&vnet.NetConfig{StaticIPs: []string{"27.0.0.50"}})
	w2, _ := vnet.NewNet(&vnet.NetConfig{StaticIPs: []string{"27.0.0.51"}})
	lh, _ := vnet.NewNet(&vnet.NetConfig{StaticIPs: []string{"192.168.0.10"}})
	for _, e := range []error{wan.AddNet(w1), wan.AddNet(w2), lan.AddNet(lh), wan.AddRouter(lan), wan.Start()} {
		if e != nil {
			return nil, e
		}
	}
	s1, err := w1.ListenUDP("udp", &net.UDPAddr{IP: net.ParseIP("27.0.0.50"), Port: 9000})
	if err != nil {
		return nil, err
	}
	s2, err := w2.ListenUDP("udp", &net.UDPAddr{IP: net.ParseIP("27.0.0.51"), Port: 9000})
	if err != nil {
		return nil, err
	}
	cl, err := lh.ListenUDP("udp", &net.UDPAddr{IP: net.ParseIP("192.168.0.10"), Port: 4000})
	if err != nil {
		return nil, err
	}
	a1 := &net.UDPAddr{IP: net.ParseIP("27.0.0.50"), Port: 9000}
	a2 := &net.UDPAddr{IP: net.ParseIP("27.0.0.51"), Port: 9000}
	// establish one binding and learn its external address
	if _, err = cl.WriteTo([]byte("hello"), a1); err != nil {
		return nil, err
	}
	buf := make([]byte, 64)
	_ = s1.SetReadDeadline(time.Now().Add(2 * time.Second))
	_, ext, err := s1.ReadFrom(buf)
	if err != nil {
		return nil, err
	}
	_ = s1.SetReadDeadline(time.Time{})
	var nextPort atomic.Int32
	nextPort.Store(10000)
	// names known to the WAN router only: a host behind the LAN router resolves them through
	// its own router's resolver, which asks the parent
	for i := 0; i < 64; i++ {
		if err := wan.AddHost(fmt.Sprintf("h%d.wan.test", i), "27.0.0.50"); err != nil {
			return nil, err
		}
	}
	var nextName, nextHost atomic.Int32
	return &world{
		run: func(g, op int) {
			switch op {
			case 0:
				_, _ = cl.WriteTo([]byte("out"), a1)
			case 1:
				// first datagram to a new remote through the existing binding
				_, _ = cl.WriteTo([]byte("new"), &net.UDPAddr{IP: a1.IP, Port: int(nextPort.Add(1))})
			case 2:
				_, _ = cl.WriteTo([]byte("out2"), a2)
			case 3:
				_, _ = s1.WriteTo([]byte("in"), ext)
			case 4:
				_, _ = s2.WriteTo([]byte("in2"), ext)
			case 5:
				_ = cl.SetReadDeadline(soon())
				_, _, _ = cl.ReadFrom(make([]byte, 64))
			case 6:
				_ = s1.SetReadDeadline(soon())
				_, _, _ = s1.ReadFrom(make([]byte, 64))
			case 7:
				if cn, err := lh.ListenUDP("udp", &net.UDPAddr{IP: net.ParseIP("192.168.0.10")}); err == nil {
					_, _ = cn.WriteTo([]byte("x"), a2)
					_ = cn.Close()
				}
			case 8:
				for i := 0; i < 4; i++ {
					_, _ = s1.WriteTo([]byte("burst-in"), ext)
					_, _ = cl.WriteTo([]byte("burst-new"), &net.UDPAddr{IP: a2.IP, Port: int(nextPort.Add(1))})
				}
			case 9:
				time.Sleep(2500 * time.Microsecond) // past the short mapping lifetime
				_, _ = cl.WriteTo([]byte("after-expiry"), a1)
			case 10:
				// a name nobody behind the LAN router has asked for yet, then a known one
				_, _ = lh.ResolveUDPAddr("udp", fmt.Sprintf("h%d.wan.test:9000", nextName.Add(1)%64))
				_, _ = lh.ResolveUDPAddr("udp", "h0.wan.test:9000")
			case 11:
				_, _ = w1.ResolveIPAddr("ip", fmt.Sprintf("h%d.wan.test", nextName.Add(1)%64))
				_, _ = lh.ResolveIPAddr("ip", "no.such.host.test")
			case 12:
				_ = lan.AddHost(fmt.Sprintf("l%d.lan.test", nextHost.Add(1)), "192.168.0.10")
				_, _ = lh.ResolveUDPAddr("udp", "l1.lan.test:4000")
			}
		},
		release: func() { _ = cl.Close(); _ = s1.Close(); _ = s2.Close(); _ = wan.Stop() },
	}, nil
}

// execute runs the program once; returns false if it did not finish in time.
func execute(p Program) (bool, error) {
	w, err := newWorld(p.Family, len(p.Ops))
	if err != nil {
		return true, err
	}
	var wg sync.WaitGroup
	start := make(chan struct{})
	for g, ops := range p.Ops {
		wg.Add(1)
		go func(g int, ops []int) {
			defer wg.Done()
			<-start
			for _, op := range ops {
				w.run(g, op)
			}
		}(g, ops)
	}
	close(start)
	done := make(chan struct{})
	go func() { wg.Wait(); close(done) }()
	ok := true
	select {
	case <-done:
	case <-time.After(2 * time.Second):
		ok = false
	}
	w.release()
	if !ok {
		select {
		case <-done:
		case <-time.After(3 * time.Second):
		}
	}
	return ok, nil
}

func genProgram(t *rapid.T) Program {
	fam := families[rapid.IntRange(0, len(families)-1).Draw(t, "family")]
	ng := rapid.IntRange(2, 6).Draw(t, "goroutines")
	p := Program{Family: fam}
	for g := 0; g < ng; g++ {
		n := rapid.IntRange(1, 8).Draw(t, "n")
		var ops []int
		for i := 0; i < n; i++ {
			ops = append(ops, rapid.IntRange(0, nOps[fam]-1).Draw(t, "op"))
		}
		p.Ops = append(p.Ops, ops)
	}
	return p
}

const ruleC19 = "rapid-drawn client programs: one family of shared objects (packetio.Buffer; deadline.Deadline; a dpipe pair; a vnet router with two hosts, their sockets, ListenUDP/Dial, AddChunkFilter, Stop/Start, AddNet of fresh hosts while it forwards; a router with a TokenBucketFilter and a LossFilter under traffic while TBFRate/TBFMaxBurst are Set; a udp listener with Accept/Close and connection Read/Write/Close on a real socket; building independent virtual networks in parallel; a LAN router behind a NAPT under outbound traffic to known and new remotes, inbound traffic to the learned external address, new sockets, mapping expiry, and name resolution through the child router's resolver while hosts are added), 2..6 goroutines each running 1..8 drawn operations concurrently; executed for real in a binary built with -race and GORACE=halt_on_error=1; oracle: the race detector (any report is a violation); every program touches the shared objects from >=2 goroutines with mutating operations, so every program counts as non-trivial; distinct by hash of the program"

func TestC19Programs(t *testing.T) {
	r := ev.New("C19", "programs", ruleC19)
	r.Essential = []string{"family/buffer", "family/deadline", "family/dpipe", "family/vnet", "family/filters", "family/udp", "family/build-networks", "family/nat"}
	r.MinForEssential = 200
	r.Assume("the race detector reports only races between accesses that the generated program actually performs in this run; API combinations outside the catalogue are not covered")
	r.Check(t, func(t *rapid.T, c *ev.Case) {
		p := genProgram(t)
		js, _ := json.Marshal(p)
		c.Op("%s", js)
		c.Label("family/" + p.Family)
		c.NonTrivial()
		// printed (and flushed) before the program starts: a race report kills the process
		fmt.Printf("PROGRAM-JSON: %s\n", js)
		reps := 2
		for i := 0; i < reps; i++ {
			ok, err := execute(p)
			if err != nil {
				t.Fatalf("VERIF-INFRA: cannot build the world for %s: %v", p.Family, err)
			}
			if !ok {
				c.Label("slow-program")
			}
		}
	})
}

// TestC19Replay re-runs the last program of a saved report (VERIF_REPLAY) 50 times.
func TestC19Replay(t *testing.T) {
	path := os.Getenv("VERIF_REPLAY")
	if path == "" {
		t.Skip("no VERIF_REPLAY")
	}
	f, err := os.Open(path)
	if err != nil {
		t.Fatal(err)
	}
	defer f.Close() //nolint:errcheck
	var last string
	sc := bufio.NewScanner(f)
	sc.Buffer(make([]byte, 1<<20), 1<<20)
	for sc.Scan() {
		if i := strings.Index(sc.Text(), "PROGRAM-JSON: "); i >= 0 {
			last = sc.Text()[i+len("PROGRAM-JSON: "):]
		}
	}
	if last == "" {
		t.Fatalf("no program in %s", path)
	}
	var p Program
	if err := json.Unmarshal([]byte(last), &p); err != nil {
		t.Fatal(err)
	}
	fmt.Printf("PROGRAM-JSON: %s\n", last)
	for i := 0; i < 50; i++ {
		if _, err := execute(p); err != nil {
			t.Fatal(err)
		}
	}
}
