package pktbuf

import (
	"testing"

	"pgregory.net/rapid"

	"verifharness/ev"
)

var fuzzRec = ev.New("C06", "fuzz", "native fuzzing")

// FuzzC06C07 drives the packet buffer state machine (FIFO and limit oracle)
// from the fuzzer's bytes.
func FuzzC06C07(f *testing.F) {
	f.Add([]byte{})
	f.Add([]byte{9, 8, 7, 6, 5, 4, 3, 2, 1, 0, 0xff, 0xfe, 0x10, 0x20, 0x30})
	b := make([]byte, 1024)
	for i := range b {
		b[i] = byte(i*101 + 7)
	}
	f.Add(b)
	f.Fuzz(rapid.MakeFuzz(func(t *rapid.T) {
		runMachine(t, fuzzRec.Begin(), mode{fifo: true, limits: true}, false)
	}))
}
