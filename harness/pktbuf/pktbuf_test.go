package pktbuf

import (
	"bytes"
	"errors"
	"io"
	"net"
	"os"
	"testing"
	"time"

	"github.com/pion/transport/v3/packetio"
	"pgregory.net/rapid"

	"verifharness/ev"
)

type mode struct {
	fifo   bool // C06 statements are asserted
	limits bool // C07 statements are asserted
}

type machine struct {
	t      *rapid.T
	c      *ev.Case
	md     mode
	b      *packetio.Buffer
	m      *Model
	serial uint64

	prevHead, prevTail, prevCap int
	nearLimit                   bool

	// other buffers of the same process, created, written, read and closed while the buffer
	// under test lives: what one buffer holds is nobody else's business
	neighbours []*packetio.Buffer
}

func hardLimitBuild() bool { return os.Getenv("VERIF_HARDLIMIT") == "1" }

func newMachine(t *rapid.T, c *ev.Case, md mode) *machine {
	mc := &machine{t: t, c: c, md: md, b: packetio.NewBuffer(), m: &Model{HardLimit: hardLimitBuild()}}
	return mc
}

func (mc *machine) ring() (h, tl, cp int) { return mc.b.VerifRing() }

// write performs one Write of n bytes and checks it against the model.
func (mc *machine) write(n int, why string) {
	t, m := mc.t, mc.m
	mc.serial++
	p := Payload(mc.serial, n)
	h0, t0, c0 := mc.ring()
	var wn int
	var err error
	ev.NoPanic(t, "Write", func() { wn, err = mc.b.Write(p) })
	h1, t1, c1 := mc.ring()
	// the writer may overwrite its slice as soon as Write returns
	for i := range p {
		p[i] ^= 0xA5
	}
	orig := Payload(mc.serial, n)
	mc.c.Op("write %d (%s) -> %d,%v", n, why, wn, errName(err))
	t.Logf("write len=%d (%s) -> n=%d err=%v   [count=%d size=%d limitCount=%d limitSize=%d ring h=%d t=%d cap=%d]",
		n, why, wn, err, m.Count(), m.Size(), m.LimitCount, m.LimitSize, h1, t1, c1)

	switch {
	case n > MaxPacket:
		mc.c.Label("write/too-big")
		if err == nil || wn != 0 {
			t.Fatalf("C06: Write of %d bytes (>= 65536) was not refused: n=%d err=%v", n, wn, err)
		}
	case m.Closed:
		mc.c.Label("write/after-close")
		if err == nil || wn != 0 {
			t.Fatalf("C06: Write after Close was not refused: n=%d err=%v", wn, err)
		}
	default:
		v := m.WriteVerdict(n)
		full := errors.Is(err, packetio.ErrFull)
		if err != nil && !full {
			t.Fatalf("Write of %d bytes failed with an unexpected error: %v", n, err)
		}
		if err == nil && wn != n {
			t.Fatalf("C06: Write of %d bytes reported %d bytes written", n, wn)
		}
		if mc.md.limits {
			switch v {
			case Accept:
				if err != nil {
					t.Fatalf("C07: Write of %d bytes refused (%v) although it fits: count=%d size=%d limitCount=%d limitSize=%d",
						n, err, m.Count(), m.Size(), m.LimitCount, m.LimitSize)
				}
			case Refuse:
				if err == nil {
					t.Fatalf("C07: Write of %d bytes accepted although it exceeds a limit: count=%d size=%d limitCount=%d limitSize=%d",
						n, m.Count(), m.Size(), m.LimitCount, m.LimitSize)
				}
			case Either:
				mc.c.Label("write/exactly-4MiB")
			}
		}
		mc.classifyLimit(n, err == nil)
		if err == nil {
			m.Push(orig)
			mc.c.Count("packets_written", 1)
			// ring geometry classes (classification only)
			if c1 != c0 && c0 != 0 {
				mc.c.Label("ring/growth-with-data")
				if h0 > t0 {
					mc.c.Label("ring/growth-while-wrapped")
					mc.c.NonTrivial()
				}
			}
			if c1 == c0 && c0 > 0 {
				if t0 == c0-1 {
					mc.c.Label("ring/header-split-across-end")
					mc.c.NonTrivial()
				}
				if t0+2+n > c0 && t0+2 <= c0 && n > 0 {
					mc.c.Label("ring/payload-split-across-end")
					mc.c.NonTrivial()
				}
				if t0+2+n == c0 {
					mc.c.Label("ring/packet-ends-at-ring-end")
				}
			}
		} else {
			mc.c.Label("write/refused-full")
		}
	}
	mc.occupancy("Write")
}

func (mc *machine) classifyLimit(n int, accepted bool) {
	m := mc.m
	need := m.Size() + 2 + n
	lim := m.LimitSize
	if lim <= 0 || (m.HardLimit && lim > Cap4MiB) {
		lim = Cap4MiB
	}
	d := need - lim
	if d >= -3 && d <= 3 {
		mc.c.Labelf("limit/size%+d", d)
		mc.nearLimit = true
		if mc.md.limits {
			mc.c.NonTrivial()
		}
	}
	if m.LimitCount > 0 {
		dc := len(m.Fifo) + 1 - m.LimitCount
		if dc >= 0 && dc <= 1 {
			mc.c.Labelf("limit/count%+d", dc)
			if mc.md.limits {
				mc.c.NonTrivial()
			}
		}
	}
	if lim == Cap4MiB && d >= -3 && d <= 3 {
		mc.c.Label("limit/4MiB-cap")
	}
	_ = accepted
}

// occupancy compares Count and Size with the model (C07).
func (mc *machine) occupancy(after string) {
	if !mc.md.limits {
		return
	}
	cnt, sz := mc.b.Count(), mc.b.Size()
	if cnt != mc.m.Count() {
		mc.t.Fatalf("C07: after %s Count()=%d, %d packets are unread", after, cnt, mc.m.Count())
	}
	if sz != mc.m.Size() {
		mc.t.Fatalf("C07: after %s Size()=%d, unread packets occupy %d bytes", after, sz, mc.m.Size())
	}
}

// read performs one Read into a slice of dst bytes (only when it cannot block).
func (mc *machine) read(dst int, why string) {
	t, m := mc.t, mc.m
	buf := make([]byte, dst)
	for i := range buf {
		buf[i] = 0xEE
	}
	h0, _, c0 := mc.ring()
	var n int
	var err error
	// the model says this Read cannot block; a deadline turns a Read that
	// blocks anyway (packets lost inside the ring) into a finding instead of a hang
	_ = mc.b.SetReadDeadline(time.Now().Add(3 * time.Second))
	ev.NoPanic(t, "Read", func() { n, err = mc.b.Read(buf) })
	_ = mc.b.SetReadDeadline(time.Time{})
	var ne net.Error
	if errors.As(err, &ne) && ne.Timeout() {
		t.Fatalf("C06/C08: Read blocked for 3 s although %d written packet(s) are unread (closed=%v): the buffer lost them", len(m.Fifo), m.Closed)
	}
	mc.c.Op("read %d (%s) -> %d,%v", dst, why, n, errName(err))
	t.Logf("read dst=%d (%s) -> n=%d err=%v", dst, why, n, err)
	if len(m.Fifo) == 0 {
		if !m.Closed {
			t.Fatalf("harness error: read on empty open buffer")
		}
		mc.c.Label("read/eof")
		if !errors.Is(err, io.EOF) || n != 0 {
			t.Fatalf("C06/C08: Read on a closed, drained buffer returned n=%d err=%v, want io.EOF", n, err)
		}
		return
	}
	want := m.Pop()
	mc.c.Count("packets_read", 1)
	exp := len(want)
	if dst < exp {
		exp = dst
		mc.c.Label("read/short")
		if !errors.Is(err, io.ErrShortBuffer) {
			t.Fatalf("C06: Read into %d bytes of a %d-byte packet returned err=%v, want io.ErrShortBuffer", dst, len(want), err)
		}
	} else if err != nil {
		t.Fatalf("C06: Read into %d bytes of a %d-byte packet failed: %v", dst, len(want), err)
	}
	if n != exp {
		t.Fatalf("C06: Read returned %d bytes, want %d (packet %d bytes, destination %d)", n, exp, len(want), dst)
	}
	if !bytes.Equal(buf[:n], want[:n]) {
		i := 0
		for i < n && buf[i] == want[i] {
			i++
		}
		t.Fatalf("C06: Read returned wrong bytes: packet of %d bytes differs at offset %d (got %#x want %#x)", len(want), i, buf[i], want[i])
	}
	if c0 > 0 && h0+2+len(want) > c0 {
		mc.c.Label("ring/read-across-end")
	}
	if m.Closed {
		mc.c.Label("read/after-close")
	}
	mc.occupancy("Read")
}

func errName(err error) string {
	switch {
	case err == nil:
		return "ok"
	case errors.Is(err, packetio.ErrFull):
		return "full"
	case errors.Is(err, io.ErrShortBuffer):
		return "short"
	case errors.Is(err, io.EOF):
		return "eof"
	case errors.Is(err, io.ErrClosedPipe):
		return "closed"
	}
	return "err"
}

// ---- generators ---------------------------------------------------------

func (mc *machine) genLen() (int, string) {
	t := mc.t
	_, tl, cp := mc.ring()
	switch k := rapid.IntRange(0, 99).Draw(t, "lkind"); {
	case k < 30:
		return rapid.IntRange(0, 40).Draw(t, "len"), "tiny"
	case k < 50:
		return rapid.IntRange(0, 3000).Draw(t, "len"), "small"
	case k < 58:
		return rapid.IntRange(2040, 2060).Draw(t, "len"), "first-ring"
	case k < 70 && cp > 0:
		// aim at the ring end: packet that ends within +-3 bytes of it
		d := cp - tl - 2 + rapid.IntRange(-3, 3).Draw(t, "d")
		if d < 0 {
			d = 0
		}
		if d > MaxPacket {
			d = MaxPacket
		}
		return d, "to-ring-end"
	case k < 80:
		// aim at the active size limit
		lim := mc.m.LimitSize
		if lim <= 0 {
			lim = Cap4MiB
		}
		d := lim - mc.m.Size() - 2 + rapid.IntRange(-3, 3).Draw(t, "d")
		if d < 0 {
			d = 0
		}
		if d > MaxPacket {
			d = MaxPacket
		}
		return d, "to-limit"
	case k < 88:
		return rapid.IntRange(60000, MaxPacket).Draw(t, "len"), "huge"
	case k < 90:
		return MaxPacket, "65535"
	case k < 92:
		return MaxPacket + 1, "65536"
	case k < 93:
		return 70000, "70000"
	default:
		return rapid.IntRange(0, 20000).Draw(t, "len"), "medium"
	}
}

func (mc *machine) genDst() (int, string) {
	t := mc.t
	if len(mc.m.Fifo) == 0 {
		return rapid.IntRange(0, 10).Draw(t, "dst"), "eof"
	}
	n := len(mc.m.Fifo[0])
	switch k := rapid.IntRange(0, 9).Draw(t, "dkind"); {
	case k < 4:
		return n, "exact"
	case k < 5:
		return n + 1, "len+1"
	case k < 6:
		if n == 0 {
			return 0, "exact"
		}
		return n - 1, "len-1"
	case k < 7:
		return 0, "zero"
	case k < 8:
		return 1, "one"
	case k < 9:
		return MaxPacket, "65535"
	default:
		return rapid.IntRange(0, n+10).Draw(t, "dst"), "any"
	}
}

func genLimitSize(t *rapid.T) int {
	switch k := rapid.IntRange(0, 9).Draw(t, "lskind"); {
	case k < 1:
		return 0
	case k < 3:
		return rapid.IntRange(1, 100).Draw(t, "ls")
	case k < 6:
		e := rapid.IntRange(0, 6).Draw(t, "lse")
		return 2048<<e + rapid.IntRange(-3, 3).Draw(t, "lsd")
	case k < 7:
		// the 5/4 growth regime above 128 KiB
		s := 131072
		for j := rapid.IntRange(0, 6).Draw(t, "lsj"); j > 0; j-- {
			s = 5 * s / 4
		}
		return s + rapid.IntRange(-3, 3).Draw(t, "lsd")
	case k < 8:
		return rapid.IntRange(100, 20000).Draw(t, "ls")
	case k < 9:
		return Cap4MiB + rapid.IntRange(-3, 3).Draw(t, "lsd")
	default:
		return 5 * 1024 * 1024
	}
}

func (mc *machine) neighbour() {
	t := mc.t
	mc.c.Label("other-buffers-alive")
	switch k := rapid.IntRange(0, 3).Draw(t, "nbop"); {
	case k < 2 || len(mc.neighbours) == 0:
		nb := packetio.NewBuffer()
		for i, n := 0, rapid.IntRange(1, 3).Draw(t, "nbwrites"); i < n; i++ {
			junk := make([]byte, rapid.IntRange(1, 1500).Draw(t, "nblen"))
			for j := range junk {
				junk[j] = 0xEE
			}
			_, _ = nb.Write(junk)
		}
		mc.neighbours = append(mc.neighbours, nb)
		t.Logf("another buffer is created and written")
	case k == 2:
		nb := mc.neighbours[rapid.IntRange(0, len(mc.neighbours)-1).Draw(t, "nbwhich")]
		_ = nb.Close()
		t.Logf("another buffer is closed with packets left")
	default:
		nb := mc.neighbours[rapid.IntRange(0, len(mc.neighbours)-1).Draw(t, "nbwhich")]
		if nb.Count() > 0 {
			got := make([]byte, 2000)
			if n, err := nb.Read(got); err == nil {
				for j := 0; j < n; j++ {
					if got[j] != 0xEE {
						t.Fatalf("C06: a packet read from another buffer of the process contains %#x at %d, it was written as %d bytes of 0xEE (buffers share storage)", got[j], j, n)
					}
				}
			}
		}
	}
}

func (mc *machine) step() {
	t, m := mc.t, mc.m
	if rapid.IntRange(0, 11).Draw(t, "neighbour") == 0 {
		mc.neighbour()
	}
	k := rapid.IntRange(0, 99).Draw(t, "op")
	canRead := len(m.Fifo) > 0 || m.Closed
	switch {
	case k < 45:
		n, why := mc.genLen()
		mc.write(n, why)
	case k < 75 && canRead:
		d, why := mc.genDst()
		mc.read(d, why)
	case k < 80:
		v := genLimitSize(t)
		mc.b.SetLimitSize(v)
		m.LimitSize = v
		mc.c.Op("SetLimitSize %d", v)
		t.Logf("SetLimitSize(%d)", v)
		mc.c.Label("op/set-limit-size")
		mc.occupancy("SetLimitSize")
	case k < 84:
		v := rapid.SampledFrom([]int{0, 1, 2, 3, 4, 5, 6, 100}).Draw(t, "lc")
		mc.b.SetLimitCount(v)
		m.LimitCount = v
		mc.c.Op("SetLimitCount %d", v)
		t.Logf("SetLimitCount(%d)", v)
		mc.c.Label("op/set-limit-count")
	case k < 86:
		err := mc.b.Close()
		if err != nil {
			t.Fatalf("Close returned %v", err)
		}
		m.Closed = true
		mc.c.Op("close")
		t.Logf("Close()")
		mc.c.Label("op/close")
	case k < 93:
		// walk: keep a few small packets in flight so that head and tail
		// travel round the ring
		rounds := rapid.IntRange(5, 120).Draw(t, "walk")
		lo := rapid.IntRange(0, 30).Draw(t, "wlo")
		mc.c.Label("op/walk")
		for i := 0; i < rounds && !m.Closed; i++ {
			n := lo + rapid.IntRange(0, 12).Draw(t, "wl")
			mc.write(n, "walk")
			if len(m.Fifo) > rapid.IntRange(0, 3).Draw(t, "keep") {
				mc.read(len(m.Fifo[0]), "walk")
			}
		}
	default:
		// drain some
		rounds := rapid.IntRange(1, 8).Draw(t, "drain")
		for i := 0; i < rounds && len(m.Fifo) > 0; i++ {
			d, why := mc.genDst()
			mc.read(d, why)
		}
	}
}

func (mc *machine) finish() {
	// final full scan: everything still buffered comes out intact and in order
	for len(mc.m.Fifo) > 0 {
		mc.read(len(mc.m.Fifo[0]), "final")
	}
	mc.occupancy("final drain")
	if mc.m.Closed {
		mc.read(4, "final-eof")
	}
}

func runMachine(t *rapid.T, c *ev.Case, md mode, big bool) {
	mc := newMachine(t, c, md)
	c.Set("hardlimit_tag", mc.m.HardLimit)
	if md.limits || rapid.IntRange(0, 3).Draw(t, "prelimit") == 0 {
		if rapid.Bool().Draw(t, "setls") {
			v := genLimitSize(t)
			mc.b.SetLimitSize(v)
			mc.m.LimitSize = v
			c.Op("SetLimitSize %d", v)
			t.Logf("SetLimitSize(%d)", v)
		}
		if rapid.IntRange(0, 2).Draw(t, "setlc") == 0 {
			v := rapid.SampledFrom([]int{1, 2, 3, 4, 5, 6, 100}).Draw(t, "lc")
			mc.b.SetLimitCount(v)
			mc.m.LimitCount = v
			c.Op("SetLimitCount %d", v)
			t.Logf("SetLimitCount(%d)", v)
		}
	}
	if big {
		// reach the 4 MiB cap (or a multi-megabyte limit) with ~64 huge packets
		c.Label("scenario/fill-to-cap")
		relimited := false
		if !mc.md.limits && rapid.IntRange(0, 1).Draw(t, "bprelimit") == 0 {
			// size the ring under a limit below the cap first
			v := rapid.SampledFrom([]int{Cap4MiB - 40000, 3 << 20, 1 << 20, 200000}).Draw(t, "bplim")
			mc.b.SetLimitSize(v)
			mc.m.LimitSize = v
			c.Op("SetLimitSize %d", v)
			t.Logf("SetLimitSize(%d)", v)
		}
		for i := 0; i < 70 && !mc.m.Closed; i++ {
			lim := mc.m.LimitSize
			if lim <= 0 || lim > Cap4MiB {
				lim = Cap4MiB
			}
			missing := lim - mc.m.Size() - 2
			n := rapid.IntRange(65000, MaxPacket).Draw(t, "blen")
			why := "fill"
			if missing <= MaxPacket+3 {
				n = missing + rapid.IntRange(-3, 3).Draw(t, "bd")
				why = "fill-to-limit"
				if n < 0 {
					n = 0
				}
				if n > MaxPacket {
					n = MaxPacket
				}
			}
			mc.write(n, why)
			if missing <= MaxPacket+3 && rapid.IntRange(0, 2).Draw(t, "bstop") == 0 {
				break
			}
			if missing <= MaxPacket+3 && lim < Cap4MiB && !relimited && rapid.IntRange(0, 1).Draw(t, "brelimit") == 0 {
				// the ring was sized under a limit below the cap; lift or raise the limit with the data in place and go on to the cap
				relimited = true
				v := rapid.SampledFrom([]int{0, 0, 5 << 20, Cap4MiB, Cap4MiB - 1}).Draw(t, "blim")
				mc.b.SetLimitSize(v)
				mc.m.LimitSize = v
				c.Op("SetLimitSize %d", v)
				t.Logf("SetLimitSize(%d) with %d bytes stored", v, mc.m.Size())
				c.Label("scenario/limit-lifted-while-full")
			}
		}
	}
	steps := rapid.IntRange(1, 60).Draw(t, "steps")
	for i := 0; i < steps; i++ {
		mc.step()
	}
	mc.finish()
}

const ruleC06 = "rapid-drawn history over one packetio.Buffer: writes (lengths 0..40, 0..3000, 2040..2060, aimed at the ring end +-3, aimed at the size limit, 60000..65535, 65536, 70000; the writer's slice is overwritten right after Write returns), reads (destination exact, len+-1, 0, 1, 65535), limit changes, Close, 'walk' bursts that keep 1..3 small packets in flight so head/tail travel round the ring, 1 in 8 cases starts with the fill to the 4 MiB cap of the limits machine (including a limit lifted while the ring is full), final drain; every Read compared byte for byte with a FIFO model; non-trivial = a growth step happened while the data was wrapped, or a header/payload was split across the ring end (seen through a read-only ring-geometry shim), and it was read back; distinct by hash of the step list"

const ruleC07 = "same machine with limits emphasised: size limits from {unset, 1..100, 2048*2^k+-3, 131072*1.25^j+-3, 4MiB+-3, 5MiB}, count limits {0..6,100}, changed at drawn points; ~10% of writes have their length derived from 'bytes missing to the active limit' in -3..3; 1 in 12 cases first fills to the 4 MiB cap with 65000..65535-byte packets, and when that fill arrives at a size limit below the cap, half of them lift or raise the limit with the data in place and go on to the cap; after every operation Count()/Size() are compared with the model and every Write verdict (accepted / ErrFull) with the rule; non-trivial = a write landed within +-3 bytes or +-1 packet of the active limit; distinct by hash of the step list"

func TestC06Sequential(t *testing.T) {
	r := ev.New("C06", "sequential", ruleC06)
	r.Essential = []string{"ring/growth-while-wrapped", "ring/header-split-across-end", "ring/payload-split-across-end", "read/short", "write/too-big", "write/after-close"}
	r.MinForEssential = 500
	r.Check(t, func(t *rapid.T, c *ev.Case) {
		// 1 in 8: first fill to the 4 MiB cap (and past a lifted limit) with huge packets
		big := rapid.IntRange(0, 7).Draw(t, "big") == 5
		runMachine(t, c, mode{fifo: true}, big)
	})
}

func TestC07Limits(t *testing.T) {
	r := ev.New("C07", "limits", ruleC07)
	r.Essential = []string{"limit/size+0", "limit/size+1", "limit/size-1", "limit/count+0", "limit/count+1", "write/refused-full"}
	r.MinForEssential = 500
	r.Check(t, func(t *rapid.T, c *ev.Case) {
		big := rapid.IntRange(0, 11).Draw(t, "big") == 0
		runMachine(t, c, mode{fifo: true, limits: true}, big)
	})
}
