package pktbuf

import (
	"errors"
	"testing"

	"github.com/pion/transport/v3/packetio"
)

// C07-cap-after-unset (fixed by 62508f3): the 4 MiB default cap was not
// applied to a ring that had already grown beyond it under a larger limit.
func TestRegressC07_CapAfterUnset(t *testing.T) {
	if hardLimitBuild() {
		t.Skip("a 5 MiB limit is ignored under the hard-limit tag")
	}
	b := packetio.NewBuffer()
	b.SetLimitSize(5 * 1024 * 1024)
	p := make([]byte, 65535)
	size := 0
	for size+2+len(p) <= 4*1024*1024+200000 {
		if _, err := b.Write(p); err != nil {
			t.Fatalf("write under a 5 MiB limit at size %d: %v", size, err)
		}
		size += 2 + len(p)
	}
	b.SetLimitSize(0)
	if _, err := b.Write(make([]byte, 6)); !errors.Is(err, packetio.ErrFull) {
		t.Fatalf("C07: with the size limit unset and Size()=%d > 4 MiB a 6-byte write returned %v, want ErrFull", b.Size(), err)
	}
	if b.Size() != size {
		t.Fatalf("C07: refused write changed Size: %d != %d", b.Size(), size)
	}
}
