package pktbuf

import (
	"bytes"
	"errors"
	"fmt"
	"io"
	"runtime"
	"sync"
	"testing"
	"time"

	"github.com/pion/transport/v3/packetio"
	"pgregory.net/rapid"

	"verifharness/ev"
)

const ruleC06Conc = "free-running concurrent variant: 1..3 writer goroutines (1..40 tagged packets each, sizes 0..3000 with some up to 40000, slice overwritten after Write; in a quarter of the cases packets of 4200..20000 bytes through a size limit that admits two of them, writers retrying while the ring is full) against 1..2 reader goroutines, perturbed by a rapid-drawn table of Gosched counts; Close after the writers finish, readers drain to EOF; oracle: every packet read is byte-identical to a written one, none twice, none lost, per-writer order preserved in every reader's sequence; non-trivial = >=2 goroutines on one side and >=10 packets; distinct by hash of the plan (sizes, yields)"

type readPkt struct {
	writer, seq int
}

func TestC06Concurrent(t *testing.T) {
	r := ev.New("C06", "concurrent-free", ruleC06Conc)
	r.Assume("the free-running variant explores only the schedules the Go runtime happens to produce; the controlled-schedule variant lives in the C08 harness")
	r.Check(t, func(t *rapid.T, c *ev.Case) {
		nw := rapid.IntRange(1, 3).Draw(t, "writers")
		nr := rapid.IntRange(1, 2).Draw(t, "readers")
		type plan struct {
			sizes  []int
			yields []int
		}
		plans := make([]plan, nw)
		total := 0
		// tight: large packets through a ring whose size limit admits two of them but not
		// three, writers retrying while it is full - the bytes a Read has just released are
		// reused by the next Write at once
		tight := rapid.IntRange(0, 3).Draw(t, "tight") == 0
		maxSz := 0
		for w := range plans {
			n := rapid.IntRange(1, 40).Draw(t, "n")
			for i := 0; i < n; i++ {
				sz := rapid.IntRange(0, 3000).Draw(t, "sz")
				if rapid.IntRange(0, 19).Draw(t, "big") == 0 {
					sz = rapid.IntRange(3000, 40000).Draw(t, "bsz")
				}
				if tight {
					sz = rapid.IntRange(4200, 20000).Draw(t, "tsz")
				}
				if sz > maxSz {
					maxSz = sz
				}
				if sz < 8 {
					sz = 8 // room for the tag
				}
				plans[w].sizes = append(plans[w].sizes, sz)
				plans[w].yields = append(plans[w].yields, rapid.IntRange(0, 3).Draw(t, "y"))
			}
			total += n
			c.Op("writer %d: sizes %v yields %v", w, plans[w].sizes, plans[w].yields)
		}
		ryield := rapid.SliceOfN(rapid.IntRange(0, 3), 8, 8).Draw(t, "ryield")
		dstKind := rapid.IntRange(0, 2).Draw(t, "dst")
		c.Set("writers", nw)
		c.Set("readers", nr)
		c.Op("reader yields %v dst %d", ryield, dstKind)
		if (nw >= 2 || nr >= 2) && total >= 10 {
			c.NonTrivial()
		}
		c.Labelf("writers=%d/readers=%d", nw, nr)

		b := packetio.NewBuffer()
		if tight {
			c.Label("tight-ring")
			b.SetLimitSize(2*(maxSz+2) + 100)
		}
		serial := func(w, i int) uint64 { return uint64(w)<<32 | uint64(i) }
		var wg sync.WaitGroup
		werr := make([]error, nw)
		for w := 0; w < nw; w++ {
			wg.Add(1)
			go func(w int) {
				defer wg.Done()
				for i, sz := range plans[w].sizes {
					p := Payload(serial(w, i), sz)
					n, err := b.Write(p)
					for limit := time.Now().Add(5 * time.Second); tight && errors.Is(err, packetio.ErrFull) && time.Now().Before(limit); n, err = b.Write(p) {
						runtime.Gosched() // full: the readers will make room
					}
					if err != nil || n != sz {
						werr[w] = fmt.Errorf("writer %d packet %d (%d bytes): n=%d err=%v", w, i, sz, n, err)
						return
					}
					for j := range p {
						p[j] = 0x5A
					}
					for y := 0; y < plans[w].yields[i]; y++ {
						runtime.Gosched()
					}
				}
			}(w)
		}
		got := make([][]readPkt, nr)
		rerr := make([]error, nr)
		var rg sync.WaitGroup
		for rd := 0; rd < nr; rd++ {
			rg.Add(1)
			go func(rd int) {
				defer rg.Done()
				buf := make([]byte, 40000)
				for k := 0; ; k++ {
					n, err := b.Read(buf)
					if errors.Is(err, io.EOF) {
						return
					}
					if err != nil {
						rerr[rd] = fmt.Errorf("reader %d: %v", rd, err)
						return
					}
					if n < 8 {
						rerr[rd] = fmt.Errorf("reader %d: packet of %d bytes was never written", rd, n)
						return
					}
					var s uint64
					for j := 0; j < 8; j++ {
						s |= uint64(buf[j]) << (8 * j)
					}
					w, i := int(s>>32), int(s&0xffffffff)
					if w >= nw || i >= len(plans[w].sizes) || !bytes.Equal(buf[:n], Payload(s, plans[w].sizes[i])) {
						rerr[rd] = fmt.Errorf("reader %d: read a %d-byte packet that matches no written packet (tag writer=%d seq=%d)", rd, n, w, i)
						return
					}
					got[rd] = append(got[rd], readPkt{w, i})
					for y := 0; y < ryield[k%len(ryield)]; y++ {
						runtime.Gosched()
					}
				}
			}(rd)
		}
		wg.Wait()
		_ = b.Close()
		rg.Wait()
		for _, e := range werr {
			if e != nil {
				t.Fatalf("C06: %v", e)
			}
		}
		for _, e := range rerr {
			if e != nil {
				t.Fatalf("C06: %v", e)
			}
		}
		seen := map[readPkt]bool{}
		n := 0
		for rd := range got {
			last := map[int]int{}
			for _, p := range got[rd] {
				if seen[p] {
					t.Fatalf("C06: packet writer=%d seq=%d was read twice", p.writer, p.seq)
				}
				seen[p] = true
				if l, ok := last[p.writer]; ok && p.seq < l {
					t.Fatalf("C06: reader %d saw writer %d's packet %d after packet %d", rd, p.writer, p.seq, l)
				}
				last[p.writer] = p.seq
				n++
			}
		}
		if n != total {
			t.Fatalf("C06: %d packets written, %d read before EOF", total, n)
		}
		c.Count("packets", int64(total))
	})
}
