// Package pktbuf holds the checks for C06 and C07 (and the free-running
// concurrent part of C06): a FIFO-of-byte-slices reference model of
// packetio.Buffer written from the property statements.
package pktbuf

const (
	MaxPacket = 65535
	Cap4MiB   = 4 * 1024 * 1024
)

type Verdict int

const (
	Refuse Verdict = iota
	Accept
	Either
)

// Model is the reference model: unread packets (copies), limits, closed.
type Model struct {
	Fifo       [][]byte
	Closed     bool
	LimitCount int
	LimitSize  int
	HardLimit  bool // built with the packetioSizeHardlimit tag
	size       int
}

func (m *Model) Count() int { return len(m.Fifo) }
func (m *Model) Size() int  { return m.size }

// WriteVerdict says whether a write of n bytes must be accepted, refused
// with the buffer-full error, or may go either way. Only called for
// n <= MaxPacket on an open buffer.
func (m *Model) WriteVerdict(n int) Verdict {
	if m.LimitCount > 0 && len(m.Fifo) >= m.LimitCount {
		return Refuse
	}
	need := m.size + 2 + n
	limit := m.LimitSize
	capped := limit <= 0
	if m.HardLimit && limit > Cap4MiB {
		capped = true
	}
	if !capped {
		if need > limit {
			return Refuse
		}
		if m.HardLimit && need == Cap4MiB {
			return Either // a limit of exactly 4 MiB meets the hard cap
		}
		return Accept
	}
	switch {
	case need > Cap4MiB:
		return Refuse
	case need == Cap4MiB:
		return Either // the ring keeps one byte free
	}
	return Accept
}

func (m *Model) Push(p []byte) {
	cp := make([]byte, len(p))
	copy(cp, p)
	m.Fifo = append(m.Fifo, cp)
	m.size += len(p) + 2
}

func (m *Model) Pop() []byte {
	p := m.Fifo[0]
	m.Fifo[0] = nil
	m.Fifo = m.Fifo[1:]
	m.size -= len(p) + 2
	return p
}

// Payload fills p deterministically from a packet serial number.
func Payload(serial uint64, n int) []byte {
	p := make([]byte, n)
	x := serial*0x9E3779B97F4A7C15 + 0x1234567
	for i := 0; i < n; i += 8 {
		x ^= x >> 30
		x *= 0xBF58476D1CE4E5B9
		x ^= x >> 27
		x *= 0x94D049BB133111EB
		x ^= x >> 31
		for j := 0; j < 8 && i+j < n; j++ {
			p[i+j] = byte(x >> (8 * j))
		}
	}
	if n >= 8 {
		for j := 0; j < 8; j++ {
			p[j] = byte(serial >> (8 * j))
		}
	}
	return p
}
