// Package vclock is a virtual clock with fake AfterFunc timers. Time moves
// only when the harness says so; a timer whose due time is reached is moved
// to the dispatched list ("the runtime has started the callback's goroutine")
// and its callback runs only when the harness asks for it, in any order.
package vclock

import (
	"sync"
	"time"
)

// Clock is the virtual clock.
type Clock struct {
	mu         sync.Mutex
	base       time.Time
	offset     time.Duration
	timers     []*Timer
	dispatched []*Dispatched
	nextID     int
}

// Dispatched is a callback invocation that has been started but not run.
type Dispatched struct {
	ID    int
	Timer *Timer
	Due   time.Duration // virtual offset at which it became due
	f     func()
}

// Timer is a fake time.AfterFunc timer.
type Timer struct {
	c      *Clock
	ID     int
	f      func()
	active bool
	due    time.Duration
}

// New returns a clock whose zero point is base.
func New(base time.Time) *Clock { return &Clock{base: base} }

// Now returns the virtual time.
func (c *Clock) Now() time.Time {
	c.mu.Lock()
	defer c.mu.Unlock()
	return c.base.Add(c.offset)
}

// Offset returns the virtual time as an offset from the base.
func (c *Clock) Offset() time.Duration {
	c.mu.Lock()
	defer c.mu.Unlock()
	return c.offset
}

// At converts an offset to a time value.
func (c *Clock) At(off time.Duration) time.Time { return c.base.Add(off) }

// satAdd adds without wrapping around (the runtime's timers saturate as well:
// a timer set for the largest Duration does not fire in the past).
func satAdd(a, d time.Duration) time.Duration {
	if d > 0 && a > 0 && a+d < a {
		return time.Duration(1<<63 - 1)
	}
	return a + d
}

// AfterFunc creates an active fake timer.
func (c *Clock) AfterFunc(d time.Duration, f func()) *Timer {
	c.mu.Lock()
	defer c.mu.Unlock()
	c.nextID++
	t := &Timer{c: c, ID: c.nextID, f: f, active: true, due: satAdd(c.offset, d)}
	c.timers = append(c.timers, t)
	c.fireDueLocked()
	return t
}

// Stop follows time.Timer.Stop for AfterFunc timers: true if the call stops
// the timer, false if it already expired (callback dispatched) or was stopped.
func (t *Timer) Stop() bool {
	t.c.mu.Lock()
	defer t.c.mu.Unlock()
	was := t.active
	t.active = false
	return was
}

// Reset follows time.Timer.Reset: reschedules; reports whether it was active.
func (t *Timer) Reset(d time.Duration) bool {
	t.c.mu.Lock()
	defer t.c.mu.Unlock()
	was := t.active
	t.active = true
	t.due = satAdd(t.c.offset, d)
	t.c.fireDueLocked()
	return was
}

func (c *Clock) fireDueLocked() {
	for _, t := range c.timers {
		if t.active && t.due <= c.offset {
			t.active = false
			c.nextID++
			c.dispatched = append(c.dispatched, &Dispatched{ID: c.nextID, Timer: t, Due: t.due, f: t.f})
		}
	}
}

// Advance moves the clock forward; due timers become dispatched.
func (c *Clock) Advance(d time.Duration) {
	c.mu.Lock()
	defer c.mu.Unlock()
	c.offset += d
	c.fireDueLocked()
}

// Pending returns the number of dispatched, not yet run callbacks.
func (c *Clock) Pending() int {
	c.mu.Lock()
	defer c.mu.Unlock()
	return len(c.dispatched)
}

// Take removes the k-th dispatched callback and returns it (nil if none).
func (c *Clock) Take(k int) *Dispatched {
	c.mu.Lock()
	defer c.mu.Unlock()
	if k < 0 || k >= len(c.dispatched) {
		return nil
	}
	d := c.dispatched[k]
	c.dispatched = append(c.dispatched[:k:k], c.dispatched[k+1:]...)
	return d
}

// Run executes the callback in the calling goroutine.
func (d *Dispatched) Run() { d.f() }

// ActiveTimers returns how many timers are armed.
func (c *Clock) ActiveTimers() int {
	c.mu.Lock()
	defer c.mu.Unlock()
	n := 0
	for _, t := range c.timers {
		if t.active {
			n++
		}
	}
	return n
}

// NextDue returns the earliest due offset among armed timers.
func (c *Clock) NextDue() (time.Duration, bool) {
	c.mu.Lock()
	defer c.mu.Unlock()
	var best time.Duration
	ok := false
	for _, t := range c.timers {
		if t.active && (!ok || t.due < best) {
			best, ok = t.due, true
		}
	}
	return best, ok
}

// PutBack re-inserts a taken callback at position k.
func (c *Clock) PutBack(k int, d *Dispatched) {
	c.mu.Lock()
	defer c.mu.Unlock()
	c.dispatched = append(c.dispatched, nil)
	copy(c.dispatched[k+1:], c.dispatched[k:])
	c.dispatched[k] = d
}
