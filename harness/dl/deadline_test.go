// Package dl holds the check for C09: deadline.Deadline on a virtual clock
// with fake timers whose callbacks the harness runs late and out of order.
package dl

import (
	"context"
	"errors"
	"math"
	"testing"
	"time"

	"github.com/pion/transport/v3/deadline"
	"pgregory.net/rapid"

	"verifharness/ev"
	"verifharness/vclock"
)

const unit = time.Second

func isClosed(ch <-chan struct{}) bool {
	select {
	case <-ch:
		return true
	default:
		return false
	}
}

type dlModel struct {
	L         time.Time // latest Set
	setsSince map[int]int
}

const ruleC09 = "rapid-drawn history of 1..40 steps over one Deadline whose time.Until/time.AfterFunc are redirected to a virtual clock: Set(zero | past | exactly now | now+1,2,5,10 units), advance(0..12 units; due timers become 'dispatched'), run dispatched callback k (any order, several outstanding), settle; after every step: Done closed/Err set only if the latest Set time is non-zero and has passed (never early, never stale), exact agreement whenever no callback is outstanding, fresh open Done channel after a Set that follows expiry, channel identity otherwise stable, Deadline() reports the latest Set; non-trivial = a callback ran after at least one later Set (stale callback); distinct by hash of the step list"

func TestC09Sequential(t *testing.T) {
	r := ev.New("C09", "sequential", ruleC09)
	r.Essential = []string{"stale-callback", "outstanding>=2", "set-after-expiry", "set/zero-while-armed", "set/shorten", "set/extend"}
	r.MinForEssential = 2000
	r.Assume("the fake timer implements the documented Stop/Reset contract of time.AfterFunc timers (Stop/Reset report false once the callback has been started)")
	base := time.Date(2030, 1, 1, 0, 0, 0, 0, time.UTC)
	r.Check(t, func(t *rapid.T, c *ev.Case) {
		clock := vclock.New(base)
		deadline.VerifSetHooks(&deadline.VerifHooks{
			Now:       clock.Now,
			AfterFunc: func(d time.Duration, f func()) deadline.VerifTimer { return clock.AfterFunc(d, f) },
		})
		defer deadline.VerifSetHooks(nil)
		d := deadline.New()
		var L time.Time
		cur := d.Done()
		setCount := 0
		dispatchedAtSet := map[int]int{} // dispatched id -> setCount when it became due (approximation: when first seen)
		seen := map[int]bool{}

		verify := func(step string, wasSet, wasExceeded bool) {
			now := clock.Now()
			ch := d.Done()
			closed := isClosed(ch)
			err := d.Err()
			expected := !L.IsZero() && !L.After(now)
			if err != nil && !errors.Is(err, context.DeadlineExceeded) {
				t.Fatalf("C09: Err() = %v, want nil or context.DeadlineExceeded", err)
			}
			if closed != (err != nil) {
				t.Fatalf("C09: after %s: Done closed=%v but Err()=%v", step, closed, err)
			}
			if closed && !expected {
				why := "no deadline is set"
				if !L.IsZero() {
					why = "the latest Set time is still " + L.Sub(now).String() + " away"
				}
				t.Fatalf("C09: after %s: deadline signalled although %s (early or stale expiry)", step, why)
			}
			if clock.Pending() == 0 && expected && !closed {
				t.Fatalf("C09: after %s: the latest Set time passed %v ago, no callback is outstanding, but Done is open and Err is nil", step, now.Sub(L))
			}
			dl, ok := d.Deadline()
			if ok != !L.IsZero() || !dl.Equal(L) {
				t.Fatalf("C09: after %s: Deadline() = %v,%v; latest Set was %v", step, dl, ok, L)
			}
			if wasSet && wasExceeded {
				if ch == cur {
					t.Fatalf("C09: Set after expiry did not yield a fresh Done channel")
				}
				if closed && !expected {
					t.Fatalf("C09: fresh Done channel is already closed")
				}
			} else if ch != cur {
				t.Fatalf("C09: after %s: Done() returned a different channel although no Set followed an expiry", step)
			}
			cur = ch
		}

		n := rapid.IntRange(1, 40).Draw(t, "steps")
		for i := 0; i < n; i++ {
			for k := 0; k < clock.Pending(); k++ {
				// remember how many Sets had happened when a callback was dispatched
				id := peekID(clock, k)
				if !seen[id] {
					seen[id] = true
					dispatchedAtSet[id] = setCount
				}
			}
			if clock.Pending() >= 2 {
				c.Label("outstanding>=2")
			}
			op := rapid.IntRange(0, 99).Draw(t, "op")
			wasExceeded := d.Err() != nil
			switch {
			case op < 45: // Set
				kind := rapid.IntRange(0, 9).Draw(t, "set")
				now := clock.Now()
				var to time.Time
				name := ""
				switch {
				case kind == 0:
					name = "zero"
				case kind == 1:
					to = now.Add(-time.Duration(rapid.IntRange(1, 5).Draw(t, "d")) * unit)
					name = "past"
				case kind == 2:
					to = now
					name = "now"
				case kind == 4 && !L.IsZero() && L.After(now) && rapid.Bool().Draw(t, "creep"):
					// the running deadline is pushed forward by less than a millisecond (a
					// keep-alive that refreshes its deadline on every packet)
					to = L.Add(time.Duration(rapid.SampledFrom([]int{1, 100, 500, 900, 999}).Draw(t, "us")) * time.Microsecond)
					name = "creep"
					c.Label("set/creep")
				case kind == 3 && rapid.Bool().Draw(t, "farthest"):
					// as far away as a time.Time or a time.Duration can say
					to = []time.Time{time.Date(9999, 12, 31, 23, 59, 59, 0, time.UTC), time.Unix(1<<40, 0), now.Add(time.Duration(math.MaxInt64))}[rapid.IntRange(0, 2).Draw(t, "which")]
					name = "farthest"
					c.Label("set/farthest")
				default:
					to = now.Add(time.Duration(rapid.SampledFrom([]int{1, 2, 5, 10}).Draw(t, "d")) * unit)
					name = "future"
				}
				armed := clock.ActiveTimers() > 0
				if armed && to.IsZero() {
					c.Label("set/zero-while-armed")
				}
				if armed && !to.IsZero() && !L.IsZero() {
					if to.Before(L) {
						c.Label("set/shorten")
					} else if to.After(L) {
						c.Label("set/extend")
					}
				}
				if wasExceeded {
					c.Label("set-after-expiry")
				}
				if clock.Pending() > 0 {
					c.Label("set-with-callback-outstanding")
				}
				ev.NoPanic(t, "Set", func() { d.Set(to) })
				L = to
				setCount++
				off := "zero"
				if !to.IsZero() {
					off = to.Sub(base).String()
				}
				c.Op("Set(%s %s)", name, off)
				t.Logf("step %d: Set(%s = %s) at vnow=%v", i, name, off, clock.Offset())
				verify("Set("+name+")", true, wasExceeded)
			case op < 70: // advance
				dd := time.Duration(rapid.IntRange(0, 12).Draw(t, "adv")) * unit
				if rapid.IntRange(0, 4).Draw(t, "fine") == 0 {
					dd = time.Duration(rapid.SampledFrom([]int{50, 400, 999, 1500}).Draw(t, "advUs")) * time.Microsecond
				}
				clock.Advance(dd)
				c.Op("advance %v", dd)
				t.Logf("step %d: advance %v -> vnow=%v, %d callbacks outstanding", i, dd, clock.Offset(), clock.Pending())
				verify("advance", false, false)
			case op < 92: // run one dispatched callback
				if clock.Pending() == 0 {
					c.Op("run-none")
					continue
				}
				k := rapid.IntRange(0, clock.Pending()-1).Draw(t, "cb")
				cb := clock.Take(k)
				if dispatchedAtSet[cb.ID] < setCount {
					c.Label("stale-callback")
					c.NonTrivial()
				}
				ev.NoPanic(t, "timer callback", cb.Run)
				c.Op("run callback #%d (due %v)", k, cb.Due)
				t.Logf("step %d: ran callback due at %v (dispatched before %d later Sets)", i, cb.Due, setCount-dispatchedAtSet[cb.ID])
				verify("timer callback", false, false)
			default: // settle
				for clock.Pending() > 0 {
					k := rapid.IntRange(0, clock.Pending()-1).Draw(t, "cb")
					cb := clock.Take(k)
					if dispatchedAtSet[cb.ID] < setCount {
						c.Label("stale-callback")
						c.NonTrivial()
					}
					ev.NoPanic(t, "timer callback", cb.Run)
					verify("timer callback (settle)", false, false)
				}
				c.Op("settle")
				t.Logf("step %d: settle", i)
				verify("settle", false, false)
			}
		}
		// final settle: advance past everything and run all callbacks
		clock.Advance(20 * unit)
		for clock.Pending() > 0 {
			cb := clock.Take(0)
			ev.NoPanic(t, "timer callback", cb.Run)
		}
		verify("final settle", false, false)
	})
}

func peekID(c *vclock.Clock, k int) int {
	d := c.Take(k)
	if d == nil {
		return -1
	}
	// put it back at the same position
	c.PutBack(k, d)
	return d.ID
}
