package dl

import (
	"context"
	"errors"
	"fmt"
	"sync"
	"testing"
	"time"

	"github.com/pion/transport/v3/deadline"
	"pgregory.net/rapid"

	"verifharness/ev"
	"verifharness/sched"
	"verifharness/vclock"
)

const ruleC09Sched = "controlled-schedule variant: 1..3 setter tasks (1..3 Set calls each: zero, past, now+1..10 units relative to the virtual clock at the call), a clock task that advances the virtual clock in drawn steps and turns every timer that becomes due into a callback task, all scheduled at the granularity of every lock operation of the yield-instrumented deadline/deadline.go; oracle at quiescence after a final settle (clock far ahead, all callbacks run): with L the value Deadline() reports (it must be one of the values some Set used), Done is closed and Err is DeadlineExceeded iff L is non-zero and has passed; Done closed <=> Err != nil; non-trivial = a callback task ran while a setter was inside Set, or >= 2 setters; distinct by hash of plan + step trace"

type setPlan struct {
	kind string // zero, past, future
	d    int
}

func TestC09Schedules(t *testing.T) {
	r := ev.New("C09", "schedules", ruleC09Sched)
	r.Essential = []string{"callback-vs-set", "setters>=2"}
	r.MinForEssential = 200
	base := time.Date(2030, 1, 1, 0, 0, 0, 0, time.UTC)
	r.Check(t, func(t *rapid.T, c *ev.Case) {
		ns := rapid.IntRange(1, 3).Draw(t, "setters")
		plans := make([][]setPlan, ns)
		for i := range plans {
			for k, n := 0, rapid.IntRange(1, 3).Draw(t, "n"); k < n; k++ {
				switch rapid.IntRange(0, 5).Draw(t, "kind") {
				case 0:
					plans[i] = append(plans[i], setPlan{"zero", 0})
				case 1:
					plans[i] = append(plans[i], setPlan{"past", rapid.IntRange(1, 3).Draw(t, "d")})
				default:
					plans[i] = append(plans[i], setPlan{"future", rapid.SampledFrom([]int{1, 2, 5, 10}).Draw(t, "d")})
				}
			}
			c.Op("setter %d: %v", i, plans[i])
		}
		ticks := rapid.SliceOfN(rapid.IntRange(0, 6), 2, 8).Draw(t, "ticks")
		c.Op("ticks %v", ticks)
		if ns >= 2 {
			c.Label("setters>=2")
			c.NonTrivial()
		}
		rc := sched.NewRapidChooser(t)
		c.Label("strategy/" + sched.StrategyNames[rc.Strategy])

		clock := vclock.New(base)
		s := sched.New()
		deadline.VerifSetHooks(&deadline.VerifHooks{
			Yield: s.Yield, Spawn: s.Spawn, Adopt: s.Adopt, Retire: s.Retire,
			Now:       clock.Now,
			AfterFunc: func(d time.Duration, f func()) deadline.VerifTimer { return clock.AfterFunc(d, f) },
		})
		defer func() {
			s.Abort()
			s.Drain(2 * time.Second)
			deadline.VerifSetHooks(nil)
		}()
		d := deadline.New()
		var mu sync.Mutex
		used := map[int64]bool{0: true} // offsets (ns) of every value some Set used; 0 = zero time
		inSet := 0
		for i := range plans {
			i := i
			s.Go(fmt.Sprintf("setter%d", i), func() {
				for _, p := range plans[i] {
					var to time.Time
					switch p.kind {
					case "past":
						to = clock.Now().Add(-time.Duration(p.d) * unit)
					case "future":
						to = clock.Now().Add(time.Duration(p.d) * unit)
					}
					mu.Lock()
					if !to.IsZero() {
						used[int64(to.Sub(base))] = true
					}
					inSet++
					mu.Unlock()
					d.Set(to)
					mu.Lock()
					inSet--
					mu.Unlock()
				}
			})
		}
		nCb := 0
		s.Go("clockd", func() {
			for _, dt := range ticks {
				clock.Advance(time.Duration(dt) * unit)
				for clock.Pending() > 0 {
					cb := clock.Take(0)
					nCb++
					s.Go(fmt.Sprintf("cb%d", nCb), cb.Run)
				}
				s.Yield("clockd:tick")
			}
		})
		var trace []string
		s.Run(chooserF(func(ss *sched.Session, en []*sched.Task) *sched.Task {
			p := rc.Pick(ss, en)
			if p != nil {
				trace = append(trace, p.Name+"@"+p.Label())
				mu.Lock()
				if len(p.Name) > 2 && p.Name[:2] == "cb" && inSet > 0 {
					c.Label("callback-vs-set")
					c.NonTrivial()
				}
				mu.Unlock()
			}
			return p
		}))
		for _, x := range trace {
			c.Op("%s", x)
		}
		if s.Discarded {
			c.Label("discarded/step-limit")
			return
		}
		for _, tk := range s.Tasks() {
			if p := tk.Panicked(); p != nil {
				t.Fatalf("C09: task %s panicked: %v\n%s", tk.Name, p, s.Describe())
			}
		}
		if bl := s.BlockedTasks(); len(bl) > 0 {
			st, fr := bl[0].WaitInfo()
			t.Fatalf("C09: task %s is blocked in [%s] at %s\n%s", bl[0].Name, st, fr, s.Describe())
		}
		// final settle outside the session: far future, run everything that is dispatched
		s.Abort()
		clock.Advance(100 * unit)
		for clock.Pending() > 0 {
			clock.Take(0).Run()
		}
		now := clock.Now()
		L, ok := d.Deadline()
		if ok != !L.IsZero() {
			t.Fatalf("C09: Deadline() = %v,%v is inconsistent", L, ok)
		}
		key := int64(0)
		if !L.IsZero() {
			key = int64(L.Sub(base))
		}
		mu.Lock()
		known := used[key]
		mu.Unlock()
		if !known {
			t.Fatalf("C09: Deadline() reports %v, which no Set call used\n%s", L, s.Describe())
		}
		closed := isClosed(d.Done())
		err := d.Err()
		if closed != (err != nil) || (err != nil && !errors.Is(err, context.DeadlineExceeded)) {
			t.Fatalf("C09: at settle Done closed=%v but Err()=%v\n%s", closed, err, s.Describe())
		}
		expected := !L.IsZero() && !L.After(now)
		if closed != expected {
			what := "is not signalled although the most recently set time " + L.Sub(base).String() + " has passed (no callback is outstanding)"
			if closed {
				what = "is signalled although the most recently set time is zero (stale timer)"
			}
			t.Fatalf("C09: at settle the deadline %s\n%s", what, s.Describe())
		}
		c.Count("schedules", 1)
	})
}

type chooserF func(s *sched.Session, en []*sched.Task) *sched.Task

func (f chooserF) Pick(s *sched.Session, en []*sched.Task) *sched.Task { return f(s, en) }
